"""Prints the markdown table of one free-for-all round (for DESIGN.md section 10.x). usage: bin/seedfreetable.py E"""
import glob, json, os, sys
ROOT = os.path.dirname(os.path.dirname(os.path.abspath(__file__)))
R = sys.argv[1]


def clean(x, n):
    x = str(x).replace("|", "/").replace("\n", " ")
    return x[:n] + ("…" if len(x) > n else "")


print("| seed | property named | what was changed | needs to manifest | first try | `bin/check <property> quick` now | first message |")
print("|---|---|---|---|---|---|---|")
for p in sorted(glob.glob(ROOT + "/seeded/free-%s*/meta.json" % R)):
    m = json.load(open(p))
    d = os.path.basename(os.path.dirname(p))
    c = m.get("confirmed_by_framework_author", {})
    ft = c.get("first_try")
    if ft is None:
        f = "-"
    elif ft.get("quick_check_exit") == 1:
        f = "caught"
    elif ft.get("caught_by_other_check") not in (None, "none"):
        f = "only by " + ft["caught_by_other_check"]
    else:
        f = "**missed**"
    print("| %s | %s | %s | %s | %s | exit %s | %s |" % (d, m["property"], clean(m.get("summary", ""), 170), clean(m.get("needs_to_manifest", ""), 140), f,
                                                   c.get("quick_check_exit", "?"), clean(c.get("quick_check_message", ""), 90)))
