"""Regenerates MANIFEST.json from the property modules (run with /venv/bin/python bin/mkmanifest.py)."""
import importlib
import json
import os
import subprocess
import sys

ROOT = os.path.dirname(os.path.dirname(os.path.abspath(__file__)))
sys.path.insert(0, ROOT)
sys.path.insert(0, "/repo")

ALL = ["C%02d" % i for i in range(1, 21)]
checks = []
na = []
for pid in ALL:
    path = os.path.join(ROOT, "vf", "props", pid.lower() + ".py")
    if not os.path.exists(path):
        na.append({"property_id": pid, "reason": "check not built yet (work in progress; see DESIGN.md section 5 for the plan)"})
        continue
    mod = importlib.import_module("vf.props." + pid.lower())
    if getattr(mod, "NOT_APPLICABLE", None):
        na.append({"property_id": pid, "reason": mod.NOT_APPLICABLE})
        continue
    checks.append(
        {
            "property_id": pid,
            "quick_cmd": "bin/check %s quick" % pid,
            "thorough_cmd": "bin/check %s thorough" % pid,
            "evidence_file": "/verif/evidence/%s.json" % pid,
            "replay_cmd_template": "bin/check %s --replay {path}" % pid,
            "engine": "vf",
            "level_claimed": {
                "category": mod.LEVEL,
                "text": mod.LEVEL_TEXT,
                "design_ref": "DESIGN.md section 5, %s" % pid,
            },
            "level_note": mod.LEVEL_NOTE,
            "technique": mod.TECHNIQUE,
        }
    )

hook_commits = []
try:
    out = subprocess.run(["git", "-C", "/repo", "log", "--format=%H %s"], capture_output=True, text=True).stdout
    for line in out.splitlines():
        h, s = line.split(" ", 1)
        if s.startswith("hook:"):
            hook_commits.append(h)
except Exception:
    pass

manifest = {
    "version": 1,
    "setup_cmd": "bin/setup",
    "hooks": {
        "guard": "GAFTOOLS_VERIF",
        "enable": "environment variable GAFTOOLS_VERIF=1 (set by bin/check); GAFTOOLS_VERIF_REALIGN_BATCH=<n> then overrides the hard-coded realign batch size",
        "baseline_off_cmd": "cd /repo && env -u GAFTOOLS_VERIF /venv/bin/python -m pytest -q -p no:cacheprovider --timeout=900 tests",
        "source_commits": hook_commits,
        "add_only": True,
    },
    "engines": [
        {
            "name": "vf",
            "path": "vf/",
            "serves_properties": [c["property_id"] for c in checks],
            "kind_free_text": "Hypothesis 6.168 property-based testing (seeded, sharded over processes), stateful machines, harness-owned scheduler for multiprocessing, exhaustive enumeration of small finite sub-spaces; explicit oracles in vf/models.py and vf/graphalgo.py",
        }
    ],
    "checks": checks,
    "not_applicable": na,
    "notes": "bin/check <ID> quick|thorough; VERIF_SEED selects the Hypothesis seed; VERIF_REPO (default /repo) selects the tree under test; fresh violations are written to found/<ID>/, the curated regression corpus is replays/<ID>/; known_findings.json lists recorded and repaired defects.",
}
with open(os.path.join(ROOT, "MANIFEST.json"), "w") as f:
    json.dump(manifest, f, indent=1)
    f.write("\n")
print("checks:", [c["property_id"] for c in checks], "na:", [x["property_id"] for x in na])
