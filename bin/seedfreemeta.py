"""Folds seeded/RESULTS.free<R>.txt (and the first-try file of the round, if kept) into seeded/free-<R>*/meta.json.
usage: bin/seedfreemeta.py D"""
import json, os, re, subprocess, sys

ROOT = os.path.dirname(os.path.dirname(os.path.abspath(__file__)))
R = sys.argv[1]
head = subprocess.run(["git", "-C", "/repo", "rev-parse", "--short", "HEAD"], capture_output=True, text=True).stdout.strip()


def parse(path):
    out, cur = {}, None
    if not os.path.exists(path):
        return out
    for line in open(path):
        m = re.match(r"seeded/(free-\w+-\d) (C\d+): seed C\d+/x: demo clean=(\d+) patched=(\d+) \| tests: ([^|]*) \| check exit=(\d+)\|(.*)", line)
        if m:
            cur = m.group(1)
            msg = [x for x in m.group(7).split("|") if x.startswith("message:")]
            out[cur] = {"named": m.group(2), "demo": (int(m.group(3)), int(m.group(4))), "tests": m.group(5).strip(),
                        "rc": int(m.group(6)), "msg": msg[0][9:300].strip() if msg else "", "other": None}
            continue
        m = re.match(r"\s+(?:(free-\S+) )?caught by (C\d+) instead: .*?(?:message: (.*))?$", line)
        if m and (m.group(1) or cur) in out:
            k = m.group(1) or cur  # lines of concurrent runs interleave: newer files name the seed on the line
            out[k]["other"] = m.group(2)
            out[k]["other_msg"] = (m.group(3) or "").strip()[:300]
        m = re.match(r"\s+(?:(free-\S+) )?NOT CAUGHT", line)
        if m and (m.group(1) or cur) in out:
            out[m.group(1) or cur]["other"] = "none"
    return out


T = "" if R == "A" else R  # the first round's files carry no letter
first = parse(os.path.join(ROOT, "seeded", "RESULTS.free%s.first-try.txt" % T))
final = parse(os.path.join(ROOT, "seeded", "RESULTS.free%s.txt" % T))
n = 0
for name, r in sorted(final.items()):
    p = os.path.join(ROOT, "seeded", name, "meta.json")
    meta = json.load(open(p))
    meta["breaks_property"] = r["named"]
    conf = {
        "repo_head": head,
        "how": "bin/seedfree seeded/%s: scratch worktree of /repo HEAD under /tmp, demo on the clean tree, git apply patch.diff, demo again, "
               "full test suite, bin/check <named property> quick with VERIF_REPO=<worktree>, then the other checks if that stays quiet; worktree removed" % name,
        "demo_exit_clean_tree": r["demo"][0],
        "demo_exit_with_change": r["demo"][1],
        "test_suite_with_change": r["tests"],
        "quick_check_exit": r["rc"],
        "quick_check_message": r["msg"],
    }
    if r["rc"] != 1:
        conf["caught_by_other_check"] = r["other"]
        conf["other_check_message"] = r.get("other_msg", "")
    if name in first:
        f = first[name]
        conf["first_try"] = {"quick_check_exit": f["rc"], "caught_by_other_check": f["other"] if f["rc"] != 1 else None,
                             "note": "outcome before any check was strengthened for this round"}
    meta["confirmed_by_framework_author"] = conf
    json.dump(meta, open(p, "w"), indent=1)
    n += 1
print("ok", n)
