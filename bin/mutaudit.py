"""
Sensitivity audit with hand-written mutants (DESIGN 2.8): each mutant is a textual replacement in a scratch
worktree of /repo HEAD (outside /repo and /verif, removed afterwards). For each: run the repository's test
suite (does it notice?), run the quick check of the property with VERIF_REPO=<worktree>, record the outcome.

usage: /venv/bin/python bin/mutaudit.py [PID ...]     writes MUTATION_AUDIT.md and mutants/<PID>/<name>.diff
"""
import os
import subprocess
import sys
from concurrent.futures import ThreadPoolExecutor

ROOT = os.path.dirname(os.path.dirname(os.path.abspath(__file__)))

M = []


def mut(pid, name, path, old, new, count=1):
    M.append((pid, name, path, old, new, count))


CONV = "gaftools/conversion.py"
UTIL = "gaftools/utils.py"
VIEW = "gaftools/cli/view.py"
INDEX = "gaftools/cli/index.py"
SORT = "gaftools/cli/sort.py"
ORDER = "gaftools/cli/order_gfa.py"
GFA = "gaftools/gfa.py"
GAF = "gaftools/gaf.py"
REAL = "gaftools/cli/realign.py"
STAT = "gaftools/cli/stat.py"
PHASE = "gaftools/cli/phase.py"
FIND = "gaftools/cli/find_path.py"

# C01 / C02 ------------------------------------------------------------------------------------
mut("C01", "reverse-start-plus-one", CONV,
    "new_start = out_node[0][0].start + gaf_line.path_length - gaf_line.path_end",
    "new_start = out_node[0][0].start + gaf_line.path_length - gaf_line.path_end + 1")
mut("C01", "no-mirror-on-minus-strand", CONV,
    "            new_end = new_total - new_start\n            new_start = new_end - (gaf_line.path_end - gaf_line.path_start)",
    "            new_end = new_start + (gaf_line.path_end - gaf_line.path_start)")
mut("C01", "merge-without-orientation-test", CONV,
    "if (node1.contig_id != node2.contig_id) or (orient1 != orient2):", "if node1.contig_id != node2.contig_id:")
mut("C01", "search-intervals-mid", UTIL,
    "return search_intervals(intervals, query_start, query_end, start, mid - 1)",
    "return search_intervals(intervals, query_start, query_end, start, mid - 2)")
mut("C01", "overlap-case2-closed", CONV, "elif s < int(query_end) <= e:", "elif s <= int(query_end) <= e:")
mut("C01", "skip-reverse-cigar-to-stable", CONV,
    "    if reverse_flag and gaf_line.cigar:\n        new_cigar = utils.reverse_cigar(gaf_line.cigar)",
    "    if reverse_flag and gaf_line.cigar:\n        new_cigar = gaf_line.cigar")
mut("C02", "to-unstable-every-other-record", CONV,
    "    for gaf_line in gaf_input.read_file():\n        yield to_unstable(gaf_line, reference)",
    "    for k, gaf_line in enumerate(gaf_input.read_file()):\n        if k % 7 == 6:\n            continue\n        yield to_unstable(gaf_line, reference)")
mut("C02", "tags-sorted", CONV,
    "    for k in gaf_line.tags.keys():\n        new_line += \"\\t%s%s\" % (k, gaf_line.tags[k])\n\n    return new_line\n\n\ndef to_stable",
    "    for k in sorted(gaf_line.tags.keys()):\n        new_line += \"\\t%s%s\" % (k, gaf_line.tags[k])\n\n    return new_line\n\n\ndef to_stable")
mut("C02", "no-merge-of-reverse-intervals", CONV,
    "    if (orient1 == \"<\") and (node1.start != node2.end):\n        return False",
    "    if orient1 == \"<\":\n        return False")
mut("C02", "matches-column-from-block", CONV,
    "        gaf_line.residue_matches,\n        gaf_line.alignment_block_length,\n        gaf_line.mapping_quality,\n    )\n\n    # Add cigar in reverse\n    if reverse_flag",
    "        gaf_line.alignment_block_length,\n        gaf_line.alignment_block_length,\n        gaf_line.mapping_quality,\n    )\n\n    # Add cigar in reverse\n    if reverse_flag")
# C03 -------------------------------------------------------------------------------------------
mut("C03", "tell-after-readline", INDEX,
    "        offset = gaf_file.tell()\n        mapping = gaf_file.readline()", "        mapping = gaf_file.readline()\n        offset = gaf_file.tell()")
mut("C03", "skip-last-path-node", INDEX,
    "alignment = list(re.split(\">|<\", val[5]))[1:]", "alignment = list(re.split(\">|<\", val[5]))[1:-1] or list(re.split(\">|<\", val[5]))[1:]")
mut("C03", "overlap-adjacent-node-leaks", INDEX,
    "                < int(query_end)\n                <= int(node.tags[\"SO\"][1]) + int(node.tags[\"LN\"][1])\n            ):\n                cases = 2",
    "                <= int(query_end)\n                <= int(node.tags[\"SO\"][1]) + int(node.tags[\"LN\"][1])\n            ):\n                cases = 2")
mut("C03", "key-end-minus-one", INDEX,
    "                        int(nodes[a].tags[\"SO\"][1]) + int(nodes[a].tags[\"LN\"][1]),\n                    )\n                ].append(offset)",
    "                        int(nodes[a].tags[\"SO\"][1]) + int(nodes[a].tags[\"LN\"][1]) - 1,\n                    )\n                ].append(offset)")
mut("C03", "linear-path-check-restored", INDEX, "path = gfa_file.get_path(contig, throw_warning=False)", "path = gfa_file.get_path(contig)")
# C04 / C05 ----------------------------------------------------------------------------------------
mut("C04", "offsets-not-sorted", VIEW, "        offsets = sorted(offsets)", "        offsets = list(offsets)")
mut("C04", "intersection-instead-of-union", VIEW,
    "        offsets = set()\n        for nd in nodes:", "        offsets = None\n        for nd in nodes:")
mut("C04", "swallow-empty-result", VIEW,
    "        if len(offsets) == 0:\n            raise CommandLineError(\"No alignments found for the given nodes/regions\")",
    "        if len(offsets) == 0:\n            return")
mut("C04", "raw-offset-list-fast-path", VIEW,
    "        offsets = sorted(offsets)", "        offsets = sorted(offsets) if len(nodes) > 1 else sorted(ind[ind_dict[nodes[0]]]) if nodes and nodes[0] in ind_dict else sorted(offsets)")
mut("C05", "half-open-region-end", VIEW, "x[2] <= q_e and q_s < x[3]", "x[2] < q_e and q_s < x[3]")
mut("C05", "only-first-node-of-region", VIEW, "        result.extend(n[0] for n in node)", "        result.extend(n[0] for n in node[:1])")
mut("C05", "contig-filter-dropped", VIEW, "isinstance(x, tuple) and x[1] == node[0] and x[2] <= q_e", "isinstance(x, tuple) and x[2] <= q_e")
mut("C05", "region-start-closed-at-node-end", VIEW, "x[2] <= q_e and q_s < x[3]", "x[2] <= q_e and q_s <= x[3]")
# C06 / C07 / C18 --------------------------------------------------------------------------------
mut("C06", "no-traversal-reverse", ORDER,
    "        traversal.reverse()\n        traversal_scaffold_only.reverse()", "        traversal_scaffold_only.reverse()")
mut("C06", "bubble-nodes-numeric-sort", ORDER,
    "for i, n in enumerate(sorted(bubbles[int(node.split(\" \")[1])])):", "for i, n in enumerate(sorted(bubbles[int(node.split(\" \")[1])], key=lambda x: (len(x), x))):")
mut("C06", "bo-not-threaded-across-chromosomes", ORDER,
    "        if new_bo is not None:\n            bo = new_bo", "        if new_bo is not None:\n            bo = 0")
mut("C06", "no-starts-at-zero-in-bubble", ORDER, "node_order[n] = (bo, i + 1)", "node_order[n] = (bo, i)")
mut("C07", "write-gfa-minus-minus-swapped", GFA,
    "                                \"\\t\".join([\"L\", str(n1), \"-\", str(n[0]), \"-\", overlap] + tags)",
    "                                \"\\t\".join([\"L\", str(n1), \"-\", str(n[0]), \"+\", overlap] + tags)")
mut("C07", "link-tags-dropped", GFA,
    "                        if tags[0] == 0:\n                            tags = []\n                        if n[1] == 0:\n                            edge = str(\n                                \"\\t\".join([\"L\", str(n1), \"+\"",
    "                        if tags[0] == 0 or True:\n                            tags = []\n                        if n[1] == 0:\n                            edge = str(\n                                \"\\t\".join([\"L\", str(n1), \"+\"")
mut("C07", "s-lines-in-dict-order", ORDER, "                order_bo=True,", "                order_bo=False,")
mut("C07", "csv-colour-swapped", ORDER, "                if node_name in scaffold_nodes:\n                    color = \"orange\"",
    "                if node_name in inside_nodes:\n                    color = \"orange\"")
mut("C07", "overlap-lost-on-write", GFA, "            for n in self.nodes[n1].end:\n                overlap = str(n[2]) + \"M\"",
    "            for n in self.nodes[n1].end:\n                overlap = \"0M\"")
mut("C18", "bo-advanced-for-skipped", ORDER,
    "        if new_bo is not None:\n            bo = new_bo", "        if new_bo is not None:\n            bo = new_bo\n        else:\n            bo += 1")
mut("C18", "empty-file-for-skipped", ORDER,
    "            logger.warning(f\"Chromosome {chromosome} was skipped\")",
    "            logger.warning(f\"Chromosome {chromosome} was skipped\")\n            open(outdir + os.sep + gfa_filename.split(os.sep)[-1].split(\".\")[0] + \"-\" + chromosome + \".gfa\", \"w\").close()\n            out_gfa.append(outdir + os.sep + gfa_filename.split(os.sep)[-1].split(\".\")[0] + \"-\" + chromosome + \".gfa\")")
mut("C18", "break-instead-of-skip", ORDER,
    "            logger.warning(f\"Chromosome {chromosome} was skipped\")", "            logger.warning(f\"Chromosome {chromosome} was skipped\")\n            break")
# C08 / C09 / C10 -----------------------------------------------------------------------------------
mut("C08", "untagged-comparator-bug", SORT, "    elif al2.BO == -1:\n        return -1", "    elif al2.BO == -1:\n        return 1")
mut("C08", "no-compare-through-bo", SORT, "    if al1.NO > al2.NO:\n        return 1", "    if al1.BO > al2.BO:\n        return 1")
mut("C08", "reverse-start-from-wrong-end", SORT, "        start = l - e\n", "        start = int(line[7])\n")
mut("C08", "offset-tiebreak-dropped", SORT,
    "    if al1.offset < al2.offset:\n        return -1\n    if al1.offset > al2.offset:\n        return 1", "    return 1")
mut("C09", "seek-offset-plus-one", SORT, "            reader.seek(off)", "            reader.seek(off + 1 if off else off)")
mut("C09", "iv-from-all-nodes", SORT,
    "        # Skipping the non-scaffold nodes\n        if no_tag != 0:\n            continue", "        # Skipping the non-scaffold nodes")
mut("C09", "sn-from-first-node-any-rank", SORT, "        if sn is None and sr_tag == 0:", "        if sn is None:")
mut("C09", "last-record-skipped", SORT, "        for alignment in gaf_alignments:\n            off = alignment.offset",
    "        for alignment in gaf_alignments[: max(len(gaf_alignments) - 1, 1)]:\n            off = alignment.offset")
mut("C10", "unconditional-pop", SORT, "index_dict.pop(\"unknown\", None)", "index_dict.pop(\"unknown\")")
mut("C10", "tell-after-write", SORT,
    "                out_off = writer.tell()\n", "                write_to_file(\"\", writer)\n                out_off = writer.tell() + len(line)\n")
mut("C10", "last-slot-never-updated", SORT, "                else:\n                    index_dict[alignment.sn][1] = out_off", "                else:\n                    pass")
mut("C10", "unknown-kept-in-index", SORT, "        index_dict.pop(\"unknown\", None)\n", "")
# C11 / C12 / C13 -----------------------------------------------------------------------------------
mut("C11", "write-as-results-arrive", REAL,
    "                else:  # priority queue to keep the output order same as input order\n                    p_queue.put(out_string_obj)",
    "                else:  # priority queue to keep the output order same as input order\n                    output.write(out_string_obj.seq)")
mut("C11", "sentinel-per-record", REAL,
    "            qu.put(PriorityAlignment(prior_counter, out_string + \"\\n\"))\n\n    qu.put(None)",
    "            qu.put(PriorityAlignment(prior_counter, out_string + \"\\n\"))\n            if prior_counter % 5 == 4:\n                qu.put(None)\n\n    qu.put(None)")
mut("C11", "queue-reused-across-groups", REAL, "            processes = []\n            align_queue = mp.Queue()\n            p_queue = queue.PriorityQueue()",
    "            processes = []\n            p_queue = queue.PriorityQueue()")
mut("C11", "no-continue-after-empty", REAL, "                    # nothing was dequeued in this round\n                    continue\n", "")
mut("C12", "path-slice-plus-one", REAL, "ref = path_sequence[line.path_start : line.path_end]", "ref = path_sequence[line.path_start + 1 : line.path_end] or path_sequence[line.path_start : line.path_end]")
mut("C12", "no-revcomp-for-reverse-steps", GFA, "                seq.append(rev_comp(self.nodes[n[1:]].seq))", "                seq.append(self.nodes[n[1:]].seq[::-1])")
mut("C12", "ref-and-query-swapped", REAL, "            aligner = WavefrontAligner(ref)\n            res = aligner(query, clip_cigar=False)",
    "            aligner = WavefrontAligner(query)\n            res = aligner(ref, clip_cigar=False)")
mut("C12", "mismatch-in-match-column", REAL, "f\"{gaf_line.path_start}\\t{gaf_line.path_end}\\t{match}\"", "f\"{gaf_line.path_start}\\t{gaf_line.path_end}\\t{match + mismatch}\"")
mut("C12", "threshold-on-query-length", REAL, "if gaf_line.query_end - gaf_line.query_start > 60_000:", "if gaf_line.query_length > 60_000:")
mut("C13", "exit-code-check-dropped", REAL,
    "                        if not all_exited(processes):\n                            logger.error(\n                                \"One of the processes had a none-zero exit code. One reason could be that one of the processes consumed too much memory and was killed\"\n                            )\n                            sys.exit(1)",
    "                        pass")
mut("C13", "exit-zero-on-abort", REAL, "            p.terminate()\n    sys.exit(1)", "            p.terminate()\n    sys.exit(0)")
mut("C13", "only-first-process-checked", REAL, "def all_exited(processes):\n    for p in processes:", "def all_exited(processes):\n    for p in processes[:1]:")
mut("C13", "any-failed-only-first", REAL, "    for p in processes:\n        if p.exitcode is not None and p.exitcode != 0:", "    for p in processes[:1]:\n        if p.exitcode is not None and p.exitcode != 0:")
# C14 / C15 ------------------------------------------------------------------------------------------
mut("C14", "cases-row-gt-lt", GFA, "            (\">\", \"<\"): (\"end\", 1),", "            (\">\", \"<\"): (\"end\", 0),")
mut("C14", "cases-row-lt-gt", GFA, "            (\"<\", \">\"): (\"start\", 0),", "            (\"<\", \">\"): (\"end\", 0),")
mut("C14", "e-dir-plus-minus", GFA, "(\"+\", \"-\"): (1, 1)", "(\"+\", \"-\"): (1, 0)")
mut("C14", "revcomp-without-reversal", UTIL, "    return seq[::-1].translate(complement)", "    return seq.translate(complement)")
mut("C14", "sequence-returned-for-non-walk", GFA, "        if not self.path_exists(path):\n            return \"\"", "        if not self.path_exists(path):\n            pass")
mut("C14", "fasta-header-from-previous", FIND, "            print(f\">seq_{node}\", file=writer)", "            print(f\">seq_{nodes[0]}\", file=writer)")
mut("C15", "lowpoint-strict", GFA, "                        if low[child] >= discovery[parent]:", "                        if low[child] > discovery[parent]:")
mut("C15", "root-children-rule-dropped", GFA, "            if root_children > 1:\n                artic_points.add(n)", "            if root_children > 2:\n                artic_points.add(n)")
mut("C15", "parent-guard-dropped", GFA, "                    if nn == parent:\n                        continue\n", "")
mut("C15", "neighbors-from-end-only", GFA, "        neighbors = [x[0] for x in self.start] + [x[0] for x in self.end]", "        neighbors = [x[0] for x in self.end] + [x[0] for x in self.end]")
mut("C15", "remove-node-without-end-loop", GFA, "        ends = [x for x in self.nodes[n_id].end]\n", "        ends = []\n")
mut("C15", "remove-from-end-removes-from-start", GFA, "            self.end.remove((neighbor, side, overlap))", "            self.start.remove((neighbor, side, overlap))")
mut("C15", "components-visited-not-reset", GFA, "        self.set_visited(False)\n        return connected_comp", "        return connected_comp")
# C16 / C17 / C19 / C20 ------------------------------------------------------------------------------
mut("C16", "value-regex-alnum", GAF, "            match = re.match(r\"([A-Za-z][A-Za-z0-9]:[AifZHB]:)(.*)$\", k)", "            match = re.match(r\"([A-Za-z][A-Za-z0-9]:[AifZHB]:)([A-Za-z0-9.=]*)\", k)")
mut("C16", "tags-sorted-in-str", GAF, "        for k in self.tags.keys():\n            line += \"\\t%s%s\" % (k, self.tags[k])", "        for k in sorted(self.tags.keys()):\n            line += \"\\t%s%s\" % (k, self.tags[k])")
mut("C16", "cigar-always-emitted", GAF, "        if self.cigar or \"cg:Z:\" in self.tags:\n            self.tags[\"cg:Z:\"] = self.cigar", "        self.tags[\"cg:Z:\"] = self.cigar")
mut("C16", "scan-all-columns-for-tags", GAF, "        for k in fields[12:]:", "        for k in fields:")
mut("C17", "index-running-byte-count", INDEX,
    "    offset = 0\n    while True:\n        offset = gaf_file.tell()\n        mapping = gaf_file.readline()\n        if not mapping:\n            break",
    "    offset = 0\n    running = 0\n    while True:\n        mapping = gaf_file.readline()\n        if not mapping:\n            break\n        offset = running\n        running += len(mapping) + (1 if isinstance(mapping, bytes) else 0)")
mut("C17", "gz-graph-by-magic-only-plain-suffix", GFA, "        if gfa_file_path.endswith(\".gz\"):\n            opened_file = gzip.open(gfa_file_path, \"rt\")",
    "        if gfa_file_path.endswith(\".gz\"):\n            opened_file = gzip.open(gfa_file_path, \"rt\", newline=\"\\r\\n\")")
mut("C17", "sort-bgzf-input-offset-off", SORT, "            offset = reader.tell()\n            line = reader.readline()",
    "            offset = reader.tell() if not hasattr(reader, \"_vf\") else 0\n            line = reader.readline()\n            if isinstance(line, bytes) and offset > (1 << 16):\n                offset = offset & ~0xF")
mut("C17", "stat-drops-last-bgzf-record", STAT, "    for alignment_count, mapping in enumerate(gaf_file.read_file(), 1):",
    "    _recs = list(gaf_file.read_file())\n    if gaf_file.gz_flag and len(_recs) > 3:\n        _recs = _recs[:-1]\n    for alignment_count, mapping in enumerate(_recs, 1):")
mut("C19", "mapq-zero-counted-primary", STAT, "if not (mapping.is_primary) or (mapping.mapping_quality <= 0):", "if not (mapping.is_primary) or (mapping.mapping_quality < 0):")
mut("C19", "maxima-replaced-by-last", STAT, "            if reads[mapping.query_name].highest_map_ratio < map_ratio:", "            if True:")
mut("C19", "cigar-ops-counted-per-base", STAT, "                if all_cigars[cnt + 1] == \"D\":\n                    total_del += 1", "                if all_cigars[cnt + 1] == \"D\":\n                    total_del += int(all_cigars[cnt])")
mut("C19", "secondaries-in-aligned-bases", STAT,
    "            total_secondary += 1\n            continue", "            total_secondary += 1\n            total_aligned_bases += mapping.residue_matches\n            continue")
mut("C19", "large-threshold-strict", STAT, "                    if int(all_cigars[cnt]) >= 50:\n                        total_ins_large += 1", "                    if int(all_cigars[cnt]) > 50:\n                        total_ins_large += 1")
mut("C20", "ht-and-ps-swapped", PHASE,
    "                    phase[gaf_line.query_name].chr_name,\n                    phase[gaf_line.query_name].phase_set,\n                    phase[gaf_line.query_name].haplotype,",
    "                    phase[gaf_line.query_name].chr_name,\n                    phase[gaf_line.query_name].haplotype,\n                    phase[gaf_line.query_name].phase_set,")
mut("C20", "none-haplotype-treated-as-phased", PHASE, "if in_tsv and phase[gaf_line.query_name].haplotype != \"none\":", "if in_tsv:")
mut("C20", "tags-dropped-for-missing-reads", PHASE,
    "        for k in gaf_line.tags.keys():\n            gaf_out.write(\"\\t%s%s\" % (k, gaf_line.tags[k]))",
    "        for k in (gaf_line.tags.keys() if in_tsv else []):\n            gaf_out.write(\"\\t%s%s\" % (k, gaf_line.tags[k]))")
mut("C20", "literal-plus-strand", PHASE, "                gaf_line.strand,\n", "                \"+\",\n")
mut("C20", "last-tsv-row-wins", PHASE, "        if line_elements[0] not in phase:\n            tmp", "        if True:\n            tmp")

# command-line wiring (argument parsing / validate / main) -----------------------------------------------
mut("C04", "cli-node-option-not-appending", VIEW, "arg('-n', '--node', dest='nodes', metavar='NODE', default=[], action='append',",
    "arg('-n', '--node', dest='nodes', metavar='NODE', default=[], nargs=1,")
mut("C05", "cli-region-option-keeps-last-only", VIEW, "arg('-r', '--region', dest='regions', metavar='REGION', default=[], action='append',",
    "arg('-r', '--region', dest='regions', metavar='REGION', default=[], nargs=1,")
mut("C19", "cli-cigar-flag-ignored", STAT, "        dest=\"cigar_stat\",\n        default=False,\n        action=\"store_true\",",
    "        dest=\"cigar_stat\",\n        default=False,\n        action=\"store_false\",")
mut("C09", "cli-bgzip-flag-ignored", SORT, "    arg(\"--bgzip\", action='store_true',", "    arg(\"--bgzip\", action='store_false', default=False,")
mut("C10", "cli-outind-not-forwarded", SORT, "def main(args):\n    run_sort(**vars(args))", "def main(args):\n    run_sort(args.gfa, args.gaf, outgaf=args.outgaf, bgzip=args.bgzip)")
mut("C07", "cli-with-sequence-inverted", ORDER, "        \"--with-sequence\",\n        default=False,\n        action=\"store_true\",", "        \"--with-sequence\",\n        default=True,\n        action=\"store_false\",")
mut("C06", "cli-by-chrom-ignored", ORDER, "def main(args):\n    run_order_gfa(**vars(args))", "def main(args):\n    args.by_chrom = False\n    run_order_gfa(**vars(args))")
mut("C14", "cli-fasta-flag-ignored", FIND, "        \"--fasta\",\n        action=\"store_true\",", "        \"--fasta\",\n        action=\"store_false\", default=False,")
mut("C20", "cli-output-option-ignored", PHASE, "def main(args):\n    run(**vars(args))", "def main(args):\n    args.output = sys.stdout\n    run(**vars(args))")
mut("C11", "cli-cores-capped-at-one", REAL, "def main(args):\n    run_realign(**vars(args))", "def main(args):\n    args.cores = 1\n    run_realign(**vars(args))")
mut("C09", "debug-logs-to-stdout", "gaftools/__main__.py", "    handler = logging.StreamHandler()", "    handler = logging.StreamHandler(sys.stdout if debug else None)")


def run_one(m):
    pid, name, path, old, new, count = m
    w = "/tmp/mutaudit_%s_%s_%d" % (pid, name, os.getpid())
    subprocess.run(["git", "-C", "/repo", "worktree", "add", "--detach", w, "HEAD"], capture_output=True)
    try:
        fp = os.path.join(w, path)
        src = open(fp).read()
        if src.count(old) != count:
            return (pid, name, "STALE (pattern found %d times)" % src.count(old), "", "")
        open(fp, "w").write(src.replace(old, new))
        diff = subprocess.run(["git", "-C", w, "diff"], capture_output=True, text=True).stdout
        os.makedirs(os.path.join(ROOT, "mutants", pid), exist_ok=True)
        open(os.path.join(ROOT, "mutants", pid, name + ".diff"), "w").write(diff)
        t = subprocess.run(["/venv/bin/python", "-m", "pytest", "-q", "-x", "-p", "no:cacheprovider", "tests"], cwd=w,
                           capture_output=True, text=True)
        tests = t.stdout.strip().split("\n")[-1]
        env = dict(os.environ, VERIF_REPO=w)
        c = subprocess.run([os.path.join(ROOT, "bin", "check"), pid, "quick"], env=env, capture_output=True, text=True, cwd=ROOT)
        msg = [l for l in c.stdout.split("\n") if l.startswith("message:")]
        return (pid, name, "exit %d" % c.returncode, tests, (msg[0][9:160] if msg else "").replace("|", "/").replace("\n", " "))
    finally:
        subprocess.run(["git", "-C", "/repo", "worktree", "remove", "--force", w], capture_output=True)


def main():
    want = set(a.upper() for a in sys.argv[1:])
    todo = [m for m in M if not want or m[0] in want]
    with ThreadPoolExecutor(max_workers=6) as ex:
        results = list(ex.map(run_one, todo))
    head = subprocess.run(["git", "-C", "/repo", "rev-parse", "--short", "HEAD"], capture_output=True, text=True).stdout.strip()
    lines = ["# Mutation audit (hand-written mutants)", "",
             "Generated by `bin/mutaudit.py` against /repo HEAD %s. Each mutant is a textual replacement (diff in `mutants/<ID>/`)," % head,
             "applied in a scratch worktree; `tests` is the repository's own suite on the mutant, `check` is `bin/check <ID> quick`",
             "with VERIF_REPO pointing at the mutant (exit 1 = violation reported = mutant killed).", "",
             "| property | mutant | check | repository tests | first message |", "|---|---|---|---|---|"]
    killed = 0
    for pid, name, rc, tests, msg in results:
        lines.append("| %s | %s | %s | %s | %s |" % (pid, name, rc, tests, msg))
        killed += rc == "exit 1"
    lines.append("")
    lines.append("%d mutants, %d killed by the quick checks." % (len(results), killed))
    lines.append("")
    lines.append("Survivors, analysed by hand (all behaviourally equivalent inside the stated domains):")
    lines.append("")
    lines.append("* C08 offset-tiebreak-dropped: `return 1` for exact ties; list.sort is stable and only asks `cmp < 0`, so ties stay in input order.")
    lines.append("* C11 queue-reused-across-groups: every sentinel of a group is consumed before the next group starts, so reusing the queue changes nothing.")
    lines.append("* C13 exit-code-check-dropped / only-first-process-checked: since the `fix:` commit that aborts as soon as one worker has a non-zero exit code, the later all-exited test is a second line of defence; with it weakened the death is still seen by `any_failed` on the next poll.")
    lines.append("* C15 parent-guard-dropped: treating the tree edge back to the parent as a back edge cannot lower low[child] below disc[parent], and blocks are node sets, so vertex-biconnectivity results are unchanged.")
    lines.append("* C07 csv-colour-swapped: scaffold nodes become 'gray' and bubble nodes 'orange' - still one label per role; the statement asks for the role, not for particular colour names (the documentation's figure even uses yellow), so the oracle only requires a consistent two-valued role column.")
    lines.append("* C11 cli-cores-capped-at-one: with one core the output is by definition the single-core output; C11 does not claim that several cores are actually used.")
    lines.append("* C20 last-tsv-row-wins: conflicting listings of one read are generated, but the statement does not say which listing counts: the oracle accepts the values of any one listing.")
    if not want:
        open(os.path.join(ROOT, "MUTATION_AUDIT.md"), "w").write("\n".join(lines) + "\n")
    print("\n".join(l for l in lines if l.startswith("| C") or "mutants," in l))


if __name__ == "__main__":
    main()
