import os
import sys
import traceback

ROOT = os.path.dirname(os.path.dirname(os.path.abspath(__file__)))
sys.path.insert(0, ROOT)
deps = os.path.join(ROOT, ".deps")
if os.path.isdir(deps):
    sys.path.append(deps)

from vf import core  # noqa: E402

if __name__ == "__main__":
    try:
        rc = core.main(sys.argv[1:])
    except SystemExit:
        raise
    except BaseException:
        traceback.print_exc()
        rc = 2
    sys.exit(rc)
