"""Prints the markdown table of seeded changes (for DESIGN.md section 10)."""
import json, os, re
ROOT = os.path.dirname(os.path.dirname(os.path.abspath(__file__)))
gen = {}
for line in open(os.path.join(ROOT, "seeded", "RESULTS.generated-search-only.txt")):
    m = re.match(r"seed (C\d+)/(\w+):.*check exit=(\d+)\|check \S+ tier=quick seed=1 shards=\d+ evaluations=(\d+)", line)
    if m:
        gen[(m.group(1), m.group(2))] = (m.group(3), m.group(4))
print("| seed | origin | what was changed | needs to manifest | caught by | generated search alone (evaluations before the hit) | first message |")
print("|---|---|---|---|---|---|---|")
for d in sorted(os.listdir(os.path.join(ROOT, "seeded"))):
    p = os.path.join(ROOT, "seeded", d, "meta.json")
    if not os.path.exists(p):
        continue
    m = json.load(open(p))
    pid, v = d.split("-")
    c = m.get("confirmed_by_framework_author", {})
    g = gen.get((pid, v), ("?", "?"))
    def clean(x, n):
        x = str(x).replace("|", "/").replace("\n", " ")
        return x[:n] + ("…" if len(x) > n else "")
    print("| %s | sub-agent round %s | %s | %s | `bin/check %s quick` exit %s | %s | %s |" % (
        d, "1" if v in "ab" else ("2" if v in "cd" else "3"), clean(m.get("summary", ""), 170), clean(m.get("needs_to_manifest", ""), 150), pid,
        c.get("quick_check_exit", "?"), "exit %s after %s cases" % g, clean(c.get("quick_check_message", ""), 110)))
