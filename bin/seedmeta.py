"""Folds seeded/RESULTS.txt into each seeded/<id>/meta.json (what was run, what was observed)."""
import json, os, re, subprocess
ROOT = os.path.dirname(os.path.dirname(os.path.abspath(__file__)))
head = subprocess.run(["git", "-C", "/repo", "rev-parse", "--short", "HEAD"], capture_output=True, text=True).stdout.strip()
for line in open(os.path.join(ROOT, "seeded", "RESULTS.txt")):
    m = re.match(r"seed (C\d+)/(\w+): demo clean=(\d+) patched=(\d+) \| tests: ([^|]*) \| check exit=(\d+)\|(.*)", line)
    if not m:
        continue
    pid, v, d0, d1, tests, rc, rest = m.groups()
    p = os.path.join(ROOT, "seeded", "%s-%s" % (pid, v), "meta.json")
    meta = json.load(open(p))
    parts = rest.split("|")
    msg = [x for x in parts if x.startswith("message:")]
    meta["breaks_property"] = pid
    meta["confirmed_by_framework_author"] = {
        "repo_head": head,
        "how": "bin/seedtest %s %s: scratch worktree of /repo HEAD under /tmp, demo on the clean tree, git apply patch.diff, demo again, full test suite, then bin/check %s quick with VERIF_REPO=<worktree>; worktree removed" % (pid, v, pid),
        "demo": "demo_after_fix.py" if os.path.exists(os.path.join(ROOT, "seeded", "%s-%s" % (pid, v), "demo_after_fix.py")) else "demo.py",
        "demo_exit_clean_tree": int(d0),
        "demo_exit_with_change": int(d1),
        "test_suite_with_change": tests.strip(),
        "quick_check_exit": int(rc),
        "quick_check_message": (msg[0][9:300] if msg else ""),
    }
    json.dump(meta, open(p, "w"), indent=1)
print("ok")
