import os, tempfile, shutil, logging, io, contextlib
from hypothesis import given, settings, strategies as st, seed, HealthCheck, event
logging.disable(logging.CRITICAL)
from gaftools.gfa import GFA
from gaftools.cli import find_path
comp=str.maketrans("ACGT","TGCA"); rc=lambda s:s[::-1].translate(comp)
flip={"+":"-","-":"+"}
@st.composite
def world(draw):
    ids=draw(st.lists(st.sampled_from(["a","b","c","s1","s22"]),min_size=1,max_size=5,unique=True))
    seqs={i:draw(st.text(alphabet="ACGT",min_size=1,max_size=6)) for i in ids}
    links=draw(st.lists(st.tuples(st.sampled_from(ids),st.sampled_from("+-"),st.sampled_from(ids),st.sampled_from("+-")),max_size=8))
    allowed=set()
    for a,oa,b,ob in links: allowed.add(((a,oa),(b,ob))); allowed.add(((b,flip[ob]),(a,flip[oa])))
    paths=[]
    for _ in range(draw(st.integers(1,5))):
        if allowed and draw(st.booleans()):
            cur=draw(st.sampled_from(sorted(allowed)))[0]; p=[cur]
            for _ in range(draw(st.integers(0,5))):
                nxt=sorted(y for x,y in allowed if x==p[-1])
                if not nxt: break
                p.append(draw(st.sampled_from(nxt)))
            if draw(st.integers(0,3))==0 and len(p)>1:
                k=draw(st.integers(0,len(p)-1)); p[k]=(p[k][0],flip[p[k][1]])
        else:
            p=[(draw(st.sampled_from(ids)),draw(st.sampled_from("+-"))) for _ in range(draw(st.integers(1,5)))]
        paths.append(p)
    return seqs,links,allowed,paths
def sp(seqs,allowed,p):
    if all((x,y) in allowed for x,y in zip(p,p[1:])): return "".join(seqs[i] if o=="+" else rc(seqs[i]) for i,o in p)
    return ""
fmt=lambda p:"".join((">" if o=="+" else "<")+i for i,o in p)
@seed(1)
@settings(max_examples=int(os.environ.get("N","1500")), deadline=None, database=None, suppress_health_check=list(HealthCheck))
@given(world())
def test(w):
    seqs,links,allowed,paths=w
    d=tempfile.mkdtemp()
    try:
        with open(d+"/g.gfa","w") as f:
            for i,s in seqs.items(): f.write(f"S\t{i}\t{s}\n")
            for a,oa,b,ob in links: f.write(f"L\t{a}\t{oa}\t{b}\t{ob}\t0M\n")
        g=GFA(d+"/g.gfa")
        exp=[]
        for p in paths:
            e=sp(seqs,allowed,p); exp.append(e)
            assert g.extract_path(fmt(p))==e,(fmt(p),e,links)
            r=[(i,flip[o]) for i,o in reversed(p)]
            assert g.extract_path(fmt(r))==rc(e)
            event("walk" if e and len(p)>1 else ("nonwalk" if len(p)>1 else "single"))
        open(d+"/p.txt","w").write("\n".join(fmt(p) for p in paths)+"\n")
        find_path.run(d+"/g.gfa", d+"/p.txt", output=d+"/o.fa", fasta=True)
        out=open(d+"/o.fa").read().split("\n")
        want=[]
        for p,e in zip(paths,exp): want+=[">seq_"+fmt(p), e]
        assert out[:-1]==want and out[-1]=="",(out,want)
    finally: shutil.rmtree(d)
test(); print("ok")
