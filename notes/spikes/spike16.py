import os, re, tempfile, shutil, logging
from hypothesis import given, settings, strategies as st, seed, HealthCheck
logging.disable(logging.CRITICAL)
from gaftools.cli import view, index
tagname = st.from_regex(r"[A-Za-z][A-Za-z0-9]", fullmatch=True).filter(lambda t: t not in ("cg","ds"))
printable = "".join(chr(c) for c in range(33,127))
zval = st.text(alphabet=printable+" ", max_size=12).filter(lambda s: s==s.strip() or True)
num = st.from_regex(r"[-+]?[0-9]{1,4}", fullmatch=True)
flt = st.from_regex(r"[-+]?([0-9]{1,3}\.[0-9]{1,3}|\.[0-9]{1,3}|[0-9]{1,3})([eE][-+]?[0-9]{1,2})?", fullmatch=True)
field = st.one_of(
    st.tuples(tagname, st.just("A"), st.sampled_from(list(printable))),
    st.tuples(tagname, st.just("i"), num),
    st.tuples(tagname, st.just("f"), flt),
    st.tuples(tagname, st.just("Z"), zval),
    st.tuples(tagname, st.just("H"), st.from_regex(r"([0-9A-F]{2}){0,4}", fullmatch=True)),
    st.tuples(tagname, st.just("B"), st.from_regex(r"[cCsSiIf](,[-+]?[0-9]{1,3}){1,4}", fullmatch=True)),
).map(lambda t: ":".join(t))
@st.composite
def rec(draw, k):
    fields = draw(st.lists(field, max_size=6, unique_by=lambda f: f[:4]))
    if draw(st.booleans()):
        fields.insert(draw(st.integers(0,len(fields))), "cg:Z:10=")
    if draw(st.booleans()) and draw(st.booleans()):
        fields.insert(draw(st.integers(0,len(fields))), "ds:Z::4*at+cc:3")
    while fields and fields[-1]!=fields[-1].rstrip(): fields[-1]=fields[-1].rstrip()+"x"
    name = f"r{k}" + draw(st.sampled_from([""," comment here"," ab:Z:zz"]))
    path, plen, ps, pe = draw(st.sampled_from([(">s1>s2",20,3,13),("<s2<s1",20,3,13),(">s1>a1>s3",25,5,15),("<s3",10,0,10)]))
    return "\t".join([name,"50","5","15","+",path,str(plen),str(ps),str(pe),"10","10","60"]+fields)
G = open("g.gfa").read()
def optional(line):
    f=line.split("\t")[12:]
    return [x for x in f if not x.startswith("cg:Z:") and not x.startswith("ds:Z:")]
@seed(int(os.environ.get("S","1")))
@settings(max_examples=int(os.environ.get("N","400")), deadline=None, database=None, suppress_health_check=list(HealthCheck))
@given(st.data())
def test(data):
    lines=[data.draw(rec(k)) for k in range(data.draw(st.integers(1,4)))]
    d=tempfile.mkdtemp()
    try:
        open(d+"/g.gfa","w").write(G); open(d+"/u.gaf","w").write("\n".join(lines)+"\n")
        index.run(d+"/u.gaf", d+"/g.gfa")
        view.run(d+"/u.gaf", output=d+"/n.gaf", nodes=["s1","s3"], index=d+"/u.gaf.gvi")
        view.run(d+"/u.gaf", gfa=d+"/g.gfa", output=d+"/s.gaf", format="stable")
        view.run(d+"/s.gaf", gfa=d+"/g.gfa", output=d+"/b.gaf", format="unstable")
        for outf in ("n.gaf","s.gaf","b.gaf"):
            out=open(d+"/"+outf).read().split("\n")[:-1]
            assert len(out)==len(lines),(outf,out,lines)
            for i,o in zip(lines,out):
                fi=i.split("\t"); fo=o.split("\t")
                assert fo[0]==fi[0].split(" ")[0]
                assert fo[1:4]==fi[1:4] and fo[9:12]==fi[9:12],(i,o)
                assert optional(o)==optional(i),(outf,i,o)
                hadcg=any(x.startswith("cg:Z:") for x in fi[12:]); hascg=any(x.startswith("cg:Z:") for x in fo[12:])
                assert hadcg==hascg,(outf,i,o)
    finally: shutil.rmtree(d)
test(); print("ok")
