import os, re, tempfile, shutil, logging, pickle
from hypothesis import given, settings, strategies as st, seed, HealthCheck
logging.disable(logging.CRITICAL)
from gaftools.cli import sort
from pysam import libcbgzf
@st.composite
def world(draw):
    n=draw(st.integers(2,7)); nodes={}
    for i in range(n):
        ref=draw(st.booleans())
        un=draw(st.integers(0,5))==0
        nodes[f"s{i}"]=dict(sn="chr1" if ref else f"h{i}", sr=0 if ref else 1, bo=-1 if un else draw(st.integers(0,3)), no=-1 if un else draw(st.integers(0,2)))
    ids=sorted(nodes); recs=[]
    for k in range(draw(st.integers(1,8))):
        steps=[(draw(st.sampled_from("><")), draw(st.sampled_from(ids))) for _ in range(draw(st.integers(1,4)))]
        plen=10*len(steps); ps=draw(st.integers(0,3)); pe=plen-draw(st.integers(0,3))
        recs.append((steps,plen,ps,pe))
    return nodes,recs,draw(st.booleans())
def key(nodes, steps, plen, ps, pe):
    sc=[o for o,i in steps if nodes[i]["bo"]!=-1 and nodes[i]["no"]==0]
    fw=sc.count(">"); rv=sc.count("<")
    if fw<rv: a=steps[-1][1]; start=plen-pe
    else: a=steps[0][1]; start=ps
    bo=nodes[a]["bo"]; no=nodes[a]["no"]
    refs={nodes[i]["sn"] for o,i in steps if nodes[i]["sr"]==0}
    sn=refs.pop() if refs else "unknown"
    return ((1,) if bo==-1 else (0,bo,no,start)), bo, sn, int(fw>0 and rv>0)
@seed(int(os.environ.get("S","1")))
@settings(max_examples=int(os.environ.get("N","800")), deadline=None, database=None, suppress_health_check=list(HealthCheck))
@given(world())
def test(w):
    nodes,recs,bg=w
    d=tempfile.mkdtemp()
    try:
        with open(d+"/g.gfa","w") as f:
            for i,v in nodes.items(): f.write(f"S\t{i}\t*\tLN:i:10\tSN:Z:{v['sn']}\tSO:i:0\tSR:i:{v['sr']}\tBO:i:{v['bo']}\tNO:i:{v['no']}\n")
        lines=[f"r{k}\t50\t0\t50\t+\t{''.join(o+i for o,i in s)}\t{pl}\t{ps}\t{pe}\t40\t50\t60\tNM:i:{k}\tcg:Z:50=" for k,(s,pl,ps,pe) in enumerate(recs)]
        open(d+"/a.gaf","w").write("\n".join(lines)+"\n")
        sort.run_sort(d+"/g.gfa", d+"/a.gaf", outgaf=d+"/o.gaf", bgzip=bg)
        if bg:
            out=[l.decode() for l in libcbgzf.BGZFile(d+"/o.gaf","rb")]
        else: out=open(d+"/o.gaf").read().splitlines()
        assert len(out)==len(lines)
        ks=[]
        for o in out:
            f=o.split("\t"); base="\t".join(f[:-3]); k=lines.index(base)
            K,bo,sn,iv=key(nodes,*recs[k])
            assert f[-3:]==[f"bo:i:{bo}",f"sn:Z:{sn}",f"iv:i:{iv}"],(o,K,bo,sn,iv)
            ks.append((K,k))
        assert sorted(k for _,k in ks)==list(range(len(lines)))
        assert ks==sorted(ks),ks
        ind=pickle.load(open(d+"/o.gaf.gsi","rb"))
        sns=[o.split("\t")[-2][5:] for o in out]
        assert set(ind)=={s for s in sns if s!="unknown"}
        fh=libcbgzf.BGZFile(d+"/o.gaf","rb") if bg else open(d+"/o.gaf")
        for c,(a,b) in ind.items():
            pos=[i for i,s in enumerate(sns) if s==c]
            for off,i in ((a,pos[0]),(b,pos[-1])):
                fh.seek(off); l=fh.readline(); l=l.decode() if isinstance(l,bytes) else l
                assert l.rstrip("\n")==out[i]
    finally: shutil.rmtree(d)
test(); print("ok")
