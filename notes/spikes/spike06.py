import os, itertools, logging, tempfile, shutil, glob, collections
from hypothesis import given, settings, strategies as st, seed, HealthCheck, event
from gaftools.cli.order_gfa import run_order_gfa
logging.disable(logging.CRITICAL)

# ---------- brute force graph oracle
def comps(nodes, adj):
    seen=set(); out=[]
    for n in nodes:
        if n in seen: continue
        st_=[n]; c=set()
        while st_:
            x=st_.pop()
            if x in c: continue
            c.add(x); st_.extend(y for y in adj[x] if y in nodes and y not in c)
        seen|=c; out.append(c)
    return out
def artic_blocks(nodes, adj):
    nodes=set(nodes)
    art={v for v in nodes if len(comps(nodes-{v}, adj))>1}
    # blocks via edge equivalence: textbook lowpoint (recursive), fine for small graphs
    import sys; sys.setrecursionlimit(10000)
    disc={}; low={}; stack=[]; blocks=[]
    def dfs(u,p):
        disc[u]=low[u]=len(disc)
        for v in adj[u]:
            if v==u or v not in nodes: continue
            if v not in disc:
                stack.append((u,v)); dfs(v,u); low[u]=min(low[u],low[v])
                if low[v]>=disc[u]:
                    b=set()
                    while True:
                        e=stack.pop(); b|=set(e)
                        if e==(u,v): break
                    blocks.append(b)
            elif v!=p and disc[v]<disc[u]:
                stack.append((u,v)); low[u]=min(low[u],disc[v])
    for n in sorted(nodes):
        if n not in disc: dfs(n,None)
    return art, blocks

# ---------- generator: bubble chain
@st.composite
def chain(draw, chrom="chrA", prefix="s", start_id=1):
    nid=[start_id]
    def new():
        nid[0]+=draw(st.integers(1,3)); return f"{prefix}{nid[0]}"
    nodes={}  # id -> dict(ln, sn, so, sr)
    links=[]  # (a,oa,b,ob)
    pos=[0]
    def ref_node():
        n=new(); ln=draw(st.integers(1,9)); nodes[n]=dict(ln=ln,sn=chrom,so=pos[0],sr=0); pos[0]+=ln; return n
    hapcount=[0]
    def hap_node():
        n=new(); hapcount[0]+=1; ln=draw(st.integers(1,9)); h=draw(st.integers(1,6)); nodes[n]=dict(ln=ln,sn=f"H{chrom}{h}#ctg",so=1000*hapcount[0],sr=h); return n
    nel=draw(st.integers(1,6))
    cur=ref_node(); elements=[("leaf",[cur])] ; first=True
    prev=cur
    for k in range(nel):
        kind=draw(st.sampled_from(["bridge","bubble","bubble","bubble"]))
        if kind=="bridge":
            nxt=ref_node(); links.append((prev,"+",nxt,"+")); prev=nxt; continue
        # bubble between prev and nxt: ref allele of 0..2 nodes
        inner=[ref_node() for _ in range(draw(st.integers(0,2)))]
        nxt=ref_node()
        pathn=[prev]+inner+[nxt]
        for a,b in zip(pathn,pathn[1:]): links.append((a,"+",b,"+"))
        block=list(pathn)
        nears=draw(st.integers(1,3)) if inner else draw(st.integers(1,3))
        for e in range(nears):
            if e==0:
                a,b=prev,nxt
                mn=1 if not inner else 0
                # first ear must create a cycle through prev & nxt; if inner nonempty a direct link (deletion) suffices
            else:
                i=draw(st.integers(0,len(block)-2)); j=draw(st.integers(i+1,len(block)-1)); a,b=block[i],block[j]; mn=0
            k_in=draw(st.integers(mn,2))
            mids=[hap_node() for _ in range(k_in)]
            inv=draw(st.booleans()) and k_in==1
            seqp=[a]+mids+[b]
            if k_in==0 and any({x[0],x[2]}=={a,b} for x in links): continue
            for x,y in zip(seqp,seqp[1:]):
                if inv and (x in mids or y in mids):
                    links.append((x,"-" if x in mids else "+",y,"-" if y in mids else "+"))
                else: links.append((x,"+",y,"+"))
            block+=mids
        prev=nxt
    cnt=collections.Counter(d['sn'] for d in nodes.values())
    from hypothesis import assume
    assume(all(v<cnt[chrom] for k,v in cnt.items() if k!=chrom))
    return nodes, links

def write(nodes, links, path, perm, stale):
    lines=[]
    for n,d in nodes.items():
        t=f"S\t{n}\t*\tLN:i:{d['ln']}\tSN:Z:{d['sn']}\tSO:i:{d['so']}\tSR:i:{d['sr']}"
        if stale: t+=f"\tBO:i:{len(n)*7}\tNO:i:3"
        lines.append(t)
    for a,oa,b,ob in links: lines.append(f"L\t{a}\t{oa}\t{b}\t{ob}\t0M")
    lines=[lines[i] for i in perm]
    open(path,"w").write("\n".join(lines)+"\n")

@seed(int(os.environ.get("S","1")))
@settings(max_examples=int(os.environ.get("N","300")), deadline=None, database=None, suppress_health_check=list(HealthCheck))
@given(st.data())
def test(data):
    nodes, links = data.draw(chain())
    n2, l2 = data.draw(chain(chrom="chrB", prefix="t"))
    allnodes={**nodes, **n2}; alllinks=links+l2
    nlines=len(allnodes)+len(alllinks)
    perm=data.draw(st.permutations(range(nlines)))
    order=data.draw(st.sampled_from(["chrA,chrB","chrB,chrA","chrA","chrB"]))
    d=tempfile.mkdtemp()
    try:
        write(allnodes, alllinks, d+"/g.gfa", perm, data.draw(st.booleans()))
        adj=collections.defaultdict(set)
        for a,_,b,_ in alllinks: adj[a].add(b); adj[b].add(a)
        res={}
        from hypothesis import assume
        for chrom,nn in (("chrA",nodes),("chrB",n2)):
            art,blocks=artic_blocks(set(nn),adj)
            assume(len(nn)==1 or len(art)>=1)
            res[chrom]=(art,blocks)
        try:
            run_order_gfa(d+"/g.gfa", d+"/out", True, order, False)
        except BaseException as e:
            raise AssertionError(f"EXC {type(e).__name__} {e}")
        lastmax=-1
        for chrom in order.split(","):
            nn = nodes if chrom=="chrA" else n2
            art,blocks=res[chrom]
            f=glob.glob(d+f"/out/*-{chrom}.gfa")
            if len(nn)>1 and len(art)==0:  # excluded
                event("no-artic component"); assert not f; continue
            assert len(f)==1, (chrom, f, len(nn), art)
            tags={}
            for line in open(f[0]):
                x=line.rstrip().split("\t")
                if x[0]=="S":
                    t={y[:2]:int(y[5:]) for y in x[3:] if y[:2] in ("BO","NO")}
                    tags[x[1]]=(t["BO"],t["NO"])
            assert set(tags)==set(nn)
            if len(nn)==1: continue
            assert {n for n,(b,o) in tags.items() if o==0}==art, (tags, art)
            groups=collections.defaultdict(set)
            for n,(b,o) in tags.items():
                if o!=0: groups[b].add(n)
            exp={frozenset(b-art) for b in blocks if b-art}
            assert {frozenset(g) for g in groups.values()}==exp
            for b,g in groups.items():
                assert [tags[n][1] for n in sorted(g)]==list(range(1,len(g)+1))
            # order by ref offset
            elems=[]
            for n in art: elems.append((nn[n]['so'], tags[n][0]))
            for b,g in groups.items():
                blk=[B for B in blocks if g<=B][0]
                att=sorted(nn[n]['so'] for n in blk & art)
                if len(att)==2: key=att[0]+0.5
                else:
                    ref=[nn[n]['so'] for n in g if nn[n]['sr']==0]
                    assert ref and len(att)==1
                    key=att[0]-0.5 if min(ref)<att[0] else att[0]+0.5
                elems.append((key, b))
            elems.sort()
            bos=[b for _,b in elems]
            event(f"n_artic={min(len(art),3)}")
            assert all(x<y for x,y in zip(bos,bos[1:])), ("BO not increasing", elems)
            assert min(bos)>lastmax; lastmax=max(bos)
    finally:
        shutil.rmtree(d)
test(); print("ok")
