import types, sys, queue, random, os, logging
logging.disable(logging.CRITICAL)
import gaftools.cli.realign as R
print(R.__file__)
src = open(R.__file__).read().replace("batch_size = 1000", "batch_size = int(os.environ.get('B','2'))").replace("import logging\n","import logging, os\n",1)
M = types.ModuleType("realign_spike"); M.__file__ = R.__file__
exec(compile(src, R.__file__, "exec"), M.__dict__)
class Hang(Exception): pass
class Sched:
    def __init__(self, rnd, fault=None): self.rnd=rnd; self.procs=[]; self.quiet=0; self.fault=fault; self.nproc=0; self.noprog=0
    def advance(self, live):
        for p in live:
            if p.started and not p.done:
                for _ in range(self.rnd.choice([0,0,1,2,100])): p.step()
    def quiescent(self, q): return all(p.done for p in self.procs if p.q is q and p.started) and not q.buf
class FakeQueue:
    def __init__(self, s): self.s=s; self.buf=[]
    def get(self, timeout=None):
        s=self.s; live=[p for p in s.procs if p.q is self]
        s.advance(live)
        if self.buf: s.quiet=0; return self.buf.pop(0)
        cand=[p for p in live if p.started and not p.done]
        if cand and (s.noprog>=3 or s.rnd.random()<0.5):
            s.noprog=0; p=s.rnd.choice(cand); p.step()
            if self.buf: return self.buf.pop(0)
        else: s.noprog+=1
        if s.quiescent(self):
            s.quiet+=1
            if s.quiet>50: raise Hang()
        raise queue.Empty
class FakeProc:
    def __init__(self, s, target, args):
        self.s=s; self.target=target; self.args=args; self.q=args[1]; self.started=False; self.pending=[]; self.done=False; self._exit=None; self.idx=s.nproc; s.nproc+=1; s.procs.append(self); self.die_at=None
    def start(self):
        items=[]
        class Col:
            def put(s_, x): items.append(x)
        self.target(self.args[0], Col()); self.pending=items; self.started=True; self.delivered=0
        f=self.s.fault
        if f and f[0]==self.idx: self.die_at=min(f[1], len(items)-1); self.die_code=f[2]
    def step(self):
        if self.done: return
        if self.die_at is not None and self.delivered==self.die_at:
            self.done=True; self._exit=self.die_code; self.pending=[]; return
        if self.pending: self.q.buf.append(self.pending.pop(0)); self.delivered+=1
        else: self.done=True; self._exit=0
    @property
    def exitcode(self): return self._exit
    def is_alive(self):
        self.s.advance([p for p in self.s.procs if p.q is self.q]); return self.started and not self.done
    def join(self):
        while not self.done: self.step()
class FakeMP:
    def __init__(self, rnd, fault=None): self.s=Sched(rnd, fault)
    def Queue(self): return FakeQueue(self.s)
    def Process(self, target, args): return FakeProc(self.s, target, args)
    def cpu_count(self): return 64
base=[l for l in open("/repo/tests/data/alignments-graphaligner.gaf")]
def mk(n):
    recs=[]
    for i in range(n):
        f=base[i%2].split("\t"); recs.append("\t".join(f))
    open("in.gaf","w").write("".join(recs))
def run(seed, cores, fault=None):
    M.mp=FakeMP(random.Random(seed), fault)
    M.run_realign("in.gaf","/repo/tests/data/smallgraph.gfa","/repo/tests/data/reads.fa","o.gaf",cores)
    return open("o.gaf").read()
bad=0; tot=0
for n in (1,4,7):
    mk(n)
    M.mp=FakeMP(random.Random(0)); ref=None
    for seed in range(150):
        for cores in (1,2,3):
            tot+=1
            try: o=run(seed,cores)
            except BaseException as e: print("EXC",n,seed,cores,type(e).__name__,e); bad+=1; continue
            if ref is None: ref=o; assert len(o.splitlines())==n
            if o!=ref: bad+=1; print("DIFF",n,seed,cores)
print("schedules", tot, "bad", bad)
# faults
fb=0; ft=0; kinds={}
mk(7)
for seed in range(60):
    for cores in (1,2,3):
        for w in range(4):
            for k in range(0,4):
                for code in (-9,1):
                    ft+=1
                    try:
                        o=run(seed,cores,(w,k,code)); 
                        # normal return: ok only if fault never triggered (worker index doesn't exist)
                        if M.mp.s.nproc>w: fb+=1; print("NORMAL RETURN", seed,cores,w,k,code,len(o.splitlines()))
                        else: kinds["nofault"]=kinds.get("nofault",0)+1
                    except SystemExit as e:
                        kinds[f"exit{e.code}"]=kinds.get(f"exit{e.code}",0)+1
                        if not e.code: fb+=1; print("EXIT0")
                    except Hang: fb+=1; print("HANG", seed,cores,w,k,code)
                    except BaseException as e: kinds[type(e).__name__]=kinds.get(type(e).__name__,0)+1
print("faults", ft, "bad", fb, kinds)
