import os, re, tempfile, shutil, logging, io, contextlib
from fractions import Fraction as F
from hypothesis import given, settings, strategies as st, seed, HealthCheck
logging.disable(logging.CRITICAL)
from gaftools.cli.stat import run_stat
ops="=XID"
@st.composite
def cigar(draw):
    n=draw(st.integers(1,6)); out=[]; prev=None
    for _ in range(n):
        op=draw(st.sampled_from([o for o in ops if o!=prev])); prev=op
        out.append((draw(st.sampled_from([1,2,49,50,51,120])),op))
    return out
@st.composite
def recs(draw):
    names=[f"read{i}" for i in range(draw(st.integers(1,4)))]
    out=[]
    for k in range(draw(st.integers(1,10))):
        nm=draw(st.sampled_from(names)); ql=draw(st.integers(10,500)); qs=draw(st.integers(0,ql-1)); qe=draw(st.integers(qs+1,ql))
        blk=draw(st.integers(1,500)); m=draw(st.integers(0,blk)); mq=draw(st.sampled_from([0,0,1,30,60,255]))
        tp=draw(st.sampled_from(["P","P","S","I",None])); cg=draw(cigar())
        out.append(dict(nm=nm,ql=ql,qs=qs,qe=qe,m=m,blk=blk,mq=mq,tp=tp,cg=cg))
    return out
def line(r, comment):
    f=[r["nm"]+(" cmt" if comment else ""),r["ql"],r["qs"],r["qe"],"+",">s1",1000,0,10,r["m"],r["blk"],r["mq"]]
    if r["tp"]: f.append("tp:A:"+r["tp"])
    f.append("cg:Z:"+"".join(f"{n}{o}" for n,o in r["cg"]))
    return "\t".join(map(str,f))
def parse(txt):
    d={}
    for l in txt.splitlines():
        m=re.match(r"\s*([^:]+):\s*(.*)$", l)
        if m: d[m.group(1).strip()]=m.group(2).strip()
    return d
@seed(1)
@settings(max_examples=int(os.environ.get("N","1000")), deadline=None, database=None, suppress_health_check=list(HealthCheck))
@given(recs(), st.booleans())
def test(rs, cm):
    prim=[r for r in rs if (r["tp"] in (None,"P")) and r["mq"]>0]
    if not prim: return
    d=tempfile.mkdtemp()
    try:
        open(d+"/a.gaf","w").write("\n".join(line(r,cm) for r in rs)+"\n")
        with contextlib.redirect_stdout(io.StringIO()): run_stat(d+"/a.gaf", True, d+"/o.txt")
        txt=open(d+"/o.txt").read(); p=parse(txt)
        assert int(p["Total alignments"])==len(rs)
        assert int(p["Primary"])==len(prim),(p,len(prim))
        assert int(p["Secondary"])==len(rs)-len(prim)
        reads={}
        for r in prim:
            a=reads.setdefault(r["nm"],[F(0),F(0)]); a[0]=max(a[0],F(r["m"],r["blk"])); a[1]=max(a[1],F(r["qe"]-r["qs"],r["ql"]))
        assert int(p["Reads with at least one alignment"])==len(reads)
        assert int(p["Total aligned bases"])==sum(r["m"] for r in prim)
        assert abs(float(p["Average highest sequence identity"])-float(sum(a[0] for a in reads.values())/len(reads)))<=5.1e-4
        assert abs(float(p["Average highest map ratio"])-float(sum(a[1] for a in reads.values())/len(reads)))<=5.1e-4
        m=re.search(r"deletion regions: (\d+) \((\d+) >50bps\)\s+Total insertion regions: (\d+) \((\d+) >50bps\)\s+Total substitution regions: (\d+) \((\d+) >50bps\)\s+Total match regions: (\d+) \((\d+)", txt)
        got=list(map(int,m.groups())); exp=[]
        for o in "DIX=":
            exp+= [sum(1 for r in prim for n,op in r["cg"] if op==o), sum(1 for r in prim for n,op in r["cg"] if op==o and n>=50)]
        assert got==exp,(got,exp)
    finally: shutil.rmtree(d)
test(); print("ok")
