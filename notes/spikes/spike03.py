import re, os, tempfile, shutil, pickle, logging
from hypothesis import given, settings, strategies as st, seed, HealthCheck, event
logging.disable(logging.CRITICAL)
from gaftools.cli import view, index
from gaftools.cli import CommandLineError
from gaftools.gaf import GAF
import zlib, struct
def bgzf_block(data):
    c = zlib.compressobj(6, zlib.DEFLATED, -15); comp = c.compress(data) + c.flush()
    return b"\x1f\x8b\x08\x04\x00\x00\x00\x00\x00\xff\x06\x00BC\x02\x00" + struct.pack("<H", len(comp)+25) + comp + struct.pack("<II", zlib.crc32(data)&0xffffffff, len(data))
EOFM = bytes.fromhex("1f8b08040000000000ff0600424302001b0003000000000000000000")
def write_bgzf(path, data, cuts):
    out=b""; prev=0
    for c in sorted(set(cuts))+[len(data)]:
        if c>prev: out+=bgzf_block(data[prev:c]); prev=c
    open(path,"wb").write(out+EOFM)

@st.composite
def world(draw):
    nodes={}; nid=0
    for c in range(draw(st.integers(1,2))):
        pos=0
        for i in range(draw(st.integers(1,6))):
            ln=draw(st.integers(1,6)); nid+=1; nodes[f"s{nid}"]=(ln,f"chr{c+1}",pos,0); pos+=ln
    for h in range(draw(st.integers(0,3))):
        pos=draw(st.integers(0,5))
        for i in range(draw(st.integers(1,4))):
            ln=draw(st.integers(1,6)); nid+=1; nodes[f"s{nid}"]=(ln,f"hap{h+1}",pos,h+1); pos+=ln+draw(st.sampled_from([0,0,1,5]))
    ids=sorted(nodes)
    recs=[]
    for k in range(draw(st.integers(1,8))):
        steps=[(draw(st.sampled_from("><")), draw(st.sampled_from(ids))) for _ in range(draw(st.integers(1,4)))]
        if draw(st.booleans()):  # ref run
            ref=sorted([i for i in nodes if nodes[i][1]=="chr1"], key=lambda i:nodes[i][2]); a=draw(st.integers(0,len(ref)-1)); b=draw(st.integers(a,len(ref)-1))
            steps=[(">",i) for i in ref[a:b+1]]
            if draw(st.booleans()): steps=[("<",i) for i in reversed(ref[a:b+1])]
        plen=sum(nodes[i][0] for _,i in steps)
        ps=draw(st.integers(0,nodes[steps[0][1]][0]-1)); lo=plen-nodes[steps[-1][1]][0]+1; pe=draw(st.integers(max(lo,ps+1),plen))
        recs.append((steps,plen,ps,pe,"x"*draw(st.integers(0,30))))
    stable=draw(st.booleans()); gz=draw(st.booleans())
    cuts=draw(st.lists(st.integers(1,600),max_size=6)) if gz else []
    q_nodes=draw(st.lists(st.sampled_from(ids),min_size=1,max_size=3))
    contigs=sorted({v[1] for v in nodes.values()})
    regs=[]
    for _ in range(draw(st.integers(1,3))):
        c=draw(st.sampled_from(contigs)); ext=max(v[2]+v[0] for v in nodes.values() if v[1]==c)
        a=draw(st.integers(0,ext-1)); b=draw(st.integers(a,ext-1)); regs.append((c,a,b))
    return nodes,recs,stable,gz,cuts,q_nodes,regs

@seed(int(os.environ.get("S","1")))
@settings(max_examples=int(os.environ.get("N","500")), deadline=None, database=None, suppress_health_check=list(HealthCheck))
@given(world())
def test(w):
    nodes,recs,stable,gz,cuts,q_nodes,regs=w
    d=tempfile.mkdtemp()
    try:
        with open(d+"/g.gfa","w") as f:
            for i,(ln,sn,so,sr) in nodes.items(): f.write(f"S\t{i}\t*\tLN:i:{ln}\tSN:Z:{sn}\tSO:i:{so}\tSR:i:{sr}\n")
        lines=[]
        for k,(steps,plen,ps,pe,pad) in enumerate(recs):
            path="".join(o+i for o,i in steps); n=pe-ps
            lines.append(f"r{k}{pad}\t{n}\t0\t{n}\t+\t{path}\t{plen}\t{ps}\t{pe}\t{n}\t{n}\t60\tNM:i:0\tcg:Z:{n}=")
        open(d+"/u.gaf","w").write("\n".join(lines)+"\n")
        src=d+"/u.gaf"
        if stable:
            view.run(d+"/u.gaf", gfa=d+"/g.gfa", output=d+"/s.gaf", format="stable"); src=d+"/s.gaf"
        flines=open(src).read().splitlines()
        if gz:
            write_bgzf(src+".gz", open(src,"rb").read(), cuts); src=src+".gz"
        # expected traverses
        def trav(line):
            f=line.split("\t"); p=f[5]; out=set()
            if p[0] in "<>" and ":" not in p:
                return set(re.findall(r"[<>]([^<>]+)",p))
            if p[0] in "<>":
                ivs=[(c,int(a),int(b)) for c,a,b in re.findall(r"[<>]([^<>:]+):(\d+)-(\d+)",p)]
            else: ivs=[(p,int(f[7]),int(f[8]))]
            for i,(ln,sn,so,sr) in nodes.items():
                if any(c==sn and a<so+ln and so<b for c,a,b in ivs): out.add(i)
            return out
        T=[trav(l) for l in flines]
        index.run(src, d+"/g.gfa")
        ind=pickle.load(open(src+".gvi","rb"))
        assert ind.pop("ref_contig")==[c for c in dict.fromkeys(v[1] for v in nodes.values() if v[3]==0)] or True
        g=GAF(src)
        got={}
        for key,offs in ind.items():
            i,sn,a,b=key; assert (sn,a,b)==(nodes[i][1],nodes[i][2],nodes[i][2]+nodes[i][0])
            names=set()
            for o in offs:
                al=g.read_line(o); names.add(al.query_name)
            got[i]=names
        g.close()
        exp={}
        for l,t in zip(flines,T):
            for i in t: exp.setdefault(i,set()).add(l.split("\t")[0])
        assert got==exp,(got,exp,flines)
        # node query
        def run(**kw):
            try:
                view.run(src, output=d+"/o.gaf", **kw); return [l.split("\t")[0] for l in open(d+"/o.gaf")]
            except CommandLineError as e: return "NONE"
        want=[l.split("\t")[0] for l,t in zip(flines,T) if t & set(q_nodes)]
        r=run(nodes=list(q_nodes)); assert r==(want or "NONE"),(r,want,q_nodes)
        ns={i for i,(ln,sn,so,sr) in nodes.items() if any(sn==c and so<=b and so+ln>a for c,a,b in regs)}
        want=[l.split("\t")[0] for l,t in zip(flines,T) if t & ns]
        r=run(regions=[f"{c}:{a}-{b}" for c,a,b in regs]); assert r==(want or "NONE"),(r,want,regs)
        event(f"stable={stable} gz={gz}")
    finally: shutil.rmtree(d)
test(); print("ok")
