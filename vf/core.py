"""
Runner for the property checks (see DESIGN.md section 2).

    bin/check <ID> quick|thorough        run a check (replay tier first, then generated search)
    bin/check <ID> --replay <file>       re-run run_case on one saved case

Exit codes: 0 property held on everything explored (KNOWN-FINDING lines allowed),
            1 violation (a line "VIOLATION property=<ID> replay=<path>" is printed),
            2 harness error / inconclusive (never a VIOLATION line).
"""

import contextlib
import hashlib
import importlib
import io
import json
import logging
import os
import shutil
import subprocess
import sys
import tempfile
import time
import traceback

ROOT = os.path.dirname(os.path.dirname(os.path.abspath(__file__)))
REPO = os.environ.get("VERIF_REPO", "/repo")
GUARD = "GAFTOOLS_VERIF"


# ------------------------------------------------------------------------------------------
# verdicts


class Violation(Exception):
    """The property is violated by this case."""


class StepLimit(BaseException):
    """Raised by a tracing harness when a call exceeds its deterministic step budget."""


class ShrinkTimeout(BaseException):
    """Raised to leave Hypothesis when the shrinking budget is used up (the best case so far is kept)."""


class Result:
    __slots__ = ("nontrivial", "classes", "known")

    def __init__(self, nontrivial=False, classes=(), known=()):
        self.nontrivial = bool(nontrivial)
        self.classes = list(classes)
        self.known = list(known)  # ids of known findings observed on this case


def check(cond, msg, *args):
    if not cond:
        if args:
            msg = msg % args
        raise Violation(msg)


# ------------------------------------------------------------------------------------------
# helpers used by property modules


def case_hash(case):
    return hashlib.sha1(
        json.dumps(case, sort_keys=True, separators=(",", ":")).encode()
    ).hexdigest()


_TMPROOT = None


def tmproot():
    global _TMPROOT
    if _TMPROOT is None:
        base = "/dev/shm" if os.path.isdir("/dev/shm") and os.access("/dev/shm", os.W_OK) else None
        _TMPROOT = tempfile.mkdtemp(prefix="vf_", dir=base)
    return _TMPROOT


def cleanup_tmproot():
    global _TMPROOT
    if _TMPROOT and os.path.isdir(_TMPROOT):
        shutil.rmtree(_TMPROOT, ignore_errors=True)
    _TMPROOT = None


_DEPTH = [0]


@contextlib.contextmanager
def workdir():
    """A scratch directory for one case. The same path is handed out again for the next case (emptied in
    between), so that state keyed by file name - caches, memoised loaders - cannot hide behind fresh names."""
    d = os.path.join(tmproot(), "w%d" % _DEPTH[0])
    if os.path.isdir(d):
        shutil.rmtree(d, ignore_errors=True)
    os.makedirs(d)
    _DEPTH[0] += 1
    try:
        yield d
    finally:
        _DEPTH[0] -= 1
        shutil.rmtree(d, ignore_errors=True)


class _Sink(io.TextIOBase):
    def write(self, s):
        return len(s)


@contextlib.contextmanager
def quiet():
    """Silence stdout/stderr of in-process gaftools calls and undo logging side effects."""
    with contextlib.redirect_stdout(_Sink()), contextlib.redirect_stderr(_Sink()):
        try:
            yield
        finally:
            root = logging.getLogger()
            for h in list(root.handlers):
                root.removeHandler(h)


def write_text(path, text):
    with open(path, "w") as f:
        f.write(text)


def read_text(path):
    with open(path) as f:
        return f.read()


def read_output(path, what):
    """The output file of a command that reported success: its absence is a violation, not a harness problem."""
    if not os.path.exists(path):
        raise Violation("%s reported success but did not write %s" % (what, os.path.basename(path)))
    return read_text(path)


def call(fn, *a, **kw):
    """Run a gaftools entry point in-process.
    Returns ("ok", value) | ("exit", code) | ("cle", message) | ("exc", "Type: msg")."""
    from gaftools.cli import CommandLineError

    with quiet():
        try:
            return ("ok", fn(*a, **kw))
        except SystemExit as e:
            return ("exit", e.code)
        except CommandLineError as e:
            return ("cle", str(e))
        except (Violation, StepLimit, ShrinkTimeout):
            raise
        except BaseException as e:  # noqa
            if isinstance(e, (KeyboardInterrupt, MemoryError)) or getattr(e, "vf_passthrough", False):
                raise
            tb = traceback.extract_tb(e.__traceback__)
            where = ""
            for fr in reversed(tb):
                if "gaftools" in fr.filename:
                    where = " at %s:%d" % (os.path.basename(fr.filename), fr.lineno)
                    break
            return ("exc", "%s: %s%s" % (type(e).__name__, e, where))


def cli(argv, capture_stdout=False, debug=None):
    """Run `gaftools <argv>` in-process through gaftools.__main__.main (argument parsing, validate(), error handling).
    Returns the same tuples as call(); with capture_stdout the value of an ("ok", ...) result is the text written to stdout."""
    import gaftools.__main__ as gm
    from gaftools.cli import CommandLineError

    class _Capture(io.StringIO):
        name = "<stdout>"  # as the real sys.stdout

        def close(self):  # gaftools sort closes its writer, which is sys.stdout when no --outgaf is given
            pass

    if debug is None:
        # the documented global --debug option must not change any result: use it on every other call
        _CLI_CALLS[0] += 1
        debug = _CLI_CALLS[0] % 2 == 0
    if debug:
        argv = ["--debug"] + list(argv)
    buf = _Capture()
    out = buf if capture_stdout else _Sink()
    with contextlib.redirect_stdout(out), contextlib.redirect_stderr(_Sink()):
        try:
            try:
                logging.disable(logging.NOTSET)  # through the command line, logging is live (and must stay off stdout)
                gm.main([str(a) for a in argv])
                res = ("ok", buf.getvalue() if capture_stdout else None)
            except SystemExit as e:
                res = ("exit", e.code) if e.code not in (0, None) else ("ok", buf.getvalue() if capture_stdout else None)
            except CommandLineError as e:
                res = ("cle", str(e))
            except (Violation, StepLimit, ShrinkTimeout):
                raise
            except BaseException as e:  # noqa
                if isinstance(e, (KeyboardInterrupt, MemoryError)) or getattr(e, "vf_passthrough", False):
                    raise
                res = ("exc", "%s: %s" % (type(e).__name__, e))
        finally:
            root = logging.getLogger()
            for h in list(root.handlers):
                root.removeHandler(h)
            logging.disable(logging.CRITICAL)
    return res


_CLI_CALLS = [0]


def shorten(obj, limit=600):
    """Make a case printable in the evidence file without bloating it."""
    if isinstance(obj, str):
        return obj if len(obj) <= limit else obj[:limit] + "...[%d chars]" % len(obj)
    if isinstance(obj, list):
        out = [shorten(x, limit) for x in obj[:40]]
        if len(obj) > 40:
            out.append("...[%d items]" % len(obj))
        return out
    if isinstance(obj, dict):
        return {k: shorten(v, limit) for k, v in obj.items()}
    return obj


# ------------------------------------------------------------------------------------------
# known findings


def load_known(pid):
    path = os.path.join(ROOT, "known_findings.json")
    if not os.path.exists(path):
        return {}
    data = json.load(open(path))
    return {k["id"]: k for k in data.get("known", []) if k.get("property") == pid}


# ------------------------------------------------------------------------------------------
# one shard


class Stats:
    def __init__(self):
        self.evaluations = 0
        self.nontrivial = set()
        self.classes = {}
        self.samples = []
        self.known_hits = {}
        self.excluded = {}
        self.exhaustive = []
        self.violation = None  # (case, message)
        self.first = None

    def record(self, case, res):
        self.evaluations += 1
        if self.first is None:
            self.first = shorten(case)
        for c in res.classes:
            self.classes[c] = self.classes.get(c, 0) + 1
        for k in res.known:
            self.known_hits[k] = self.known_hits.get(k, 0) + 1
        if res.nontrivial:
            h = case_hash(case)[:16]
            if h not in self.nontrivial:
                self.nontrivial.add(h)
                if len(self.samples) < 3:
                    self.samples.append(shorten(case))

    def to_json(self):
        return {
            "evaluations": self.evaluations,
            "nontrivial": sorted(self.nontrivial),
            "classes": self.classes,
            "samples": self.samples or ([self.first] if self.first is not None else []),
            "known_hits": self.known_hits,
            "excluded": self.excluded,
            "exhaustive": self.exhaustive,
            "violation": self.violation,
        }


def import_gaftools():
    if sys.path[0] != REPO:
        sys.path.insert(0, REPO)
    os.environ[GUARD] = "1"
    import gaftools

    logging.disable(logging.CRITICAL)
    d = os.path.dirname(os.path.abspath(gaftools.__file__))
    if os.path.realpath(d) != os.path.realpath(os.path.join(REPO, "gaftools")):
        raise RuntimeError("gaftools imported from %s, expected %s" % (d, REPO))
    return d


def load_prop(pid):
    return importlib.import_module("vf.props." + pid.lower())


def run_replays(mod, stats, known):
    d = os.path.join(ROOT, "replays", mod.ID)
    if not os.path.isdir(d):
        return 0
    n = 0
    for name in sorted(os.listdir(d)):
        if not name.endswith(".json"):
            continue
        data = json.load(open(os.path.join(d, name)))
        case = data["case"] if "case" in data and "property" in data else data
        n += 1
        try:
            res = mod.run_case(case)
            for k in res.known:
                if k not in known:
                    raise Violation("unlisted known-finding id %s" % k)
            stats.record(case, res)
            stats.classes["replayed"] = stats.classes.get("replayed", 0) + 1
        except Violation as v:
            stats.violation = (case, "replay %s: %s" % (name, v))
            return n
    return n


def run_shard(pid, tier, seed, shard, nshards, outpath):
    """Runs in its own process. Writes a JSON summary to outpath."""
    gaftools_dir = import_gaftools()
    import hypothesis
    from hypothesis import HealthCheck, Phase, given, settings

    mod = load_prop(pid)
    known = load_known(pid)
    stats = Stats()
    t0 = time.time()
    budget = mod.budget(tier)
    shrink_budget = budget.get("shrink_s", 30 if tier == "quick" else 120)
    failing = {}  # hash -> message, cases seen failing in this process
    first_fail_at = [None]

    def evaluate(case, count=True):
        h = case_hash(case)
        if first_fail_at[0] is not None and time.time() - first_fail_at[0] > shrink_budget:
            # out of shrinking budget: keep the smallest failing case seen so far
            raise ShrinkTimeout()
        try:
            res = mod.run_case(case)
            for k in res.known:
                if k not in known:
                    raise Violation("oracle reported unlisted finding id %s" % k)
        except Violation as v:
            failing[h] = str(v)
            if first_fail_at[0] is None:
                first_fail_at[0] = time.time()
            stats.violation = (case, str(v))
            raise
        if count and first_fail_at[0] is None:
            stats.record(case, res)

    try:
        # 1. regression tier (only shard 0)
        if shard == 0 and not os.environ.get("VERIF_SKIP_REPLAYS"):
            run_replays(mod, stats, known)
        # 2. enumerations of finite sub-spaces
        if stats.violation is None and hasattr(mod, "enumerations"):
            for name, gen, complete in mod.enumerations(tier, shard, nshards):
                cnt = 0
                for case in gen:
                    cnt += 1
                    try:
                        evaluate(case)
                    except Violation:
                        break
                if stats.violation is not None:
                    break
                if isinstance(complete, dict):
                    complete = complete.get("complete", False)
                stats.exhaustive.append({"name": name, "cases": cnt, "complete": bool(complete)})
        # 3. generated search
        n = budget.get("examples", 0)
        if nshards > 1:
            n = budget.get("examples_per_shard", n)
        if stats.violation is None and n > 0 and hasattr(mod, "strategy"):
            strat = mod.strategy(tier)

            @hypothesis.seed(seed * 1000 + shard)
            @settings(
                max_examples=n,
                deadline=None,
                database=None,
                report_multiple_bugs=False,
                suppress_health_check=list(HealthCheck),
                phases=[Phase.generate, Phase.shrink],
            )
            @given(strat)
            def test(case):
                evaluate(case)

            try:
                test()
            except (Violation, ShrinkTimeout):
                pass
            except hypothesis.errors.Flaky as e:
                # a violation that does not reproduce deterministically is a harness problem
                if stats.violation is None:
                    raise
                stats.violation = (stats.violation[0], stats.violation[1] + " [flaky: %s]" % e)
        m = budget.get("machine_examples", 0)
        if stats.violation is None and m > 0 and hasattr(mod, "machine"):
            from hypothesis.stateful import run_state_machine_as_test

            mach = mod.machine(tier, stats)
            st_settings = settings(
                max_examples=m,
                stateful_step_count=budget.get("steps", 30),
                deadline=None,
                database=None,
                report_multiple_bugs=False,
                suppress_health_check=list(HealthCheck),
                phases=[Phase.generate, Phase.shrink],
            )
            try:
                run_state_machine_as_test(
                    hypothesis.seed(seed * 1000 + shard)(mach), settings=st_settings
                )
            except Violation as v:
                stats.violation = (getattr(v, "case", {"history": "see message"}), str(v))
            except ShrinkTimeout:
                pass
    except BaseException as e:  # harness error
        out = {
            "error": "%s: %s\n%s" % (type(e).__name__, e, traceback.format_exc()),
            "stats": stats.to_json(),
        }
        json.dump(out, open(outpath, "w"))
        cleanup_tmproot()
        return 2
    out = {
        "error": None,
        "stats": stats.to_json(),
        "wall_s": time.time() - t0,
        "gaftools": gaftools_dir,
        "hashseed": os.environ.get("PYTHONHASHSEED"),
    }
    json.dump(out, open(outpath, "w"))
    cleanup_tmproot()
    return 0


# ------------------------------------------------------------------------------------------
# parent: spawn shards, merge, evidence, exit code


def hashseed_for(mod, tier, shard):
    hs = getattr(mod, "HASHSEEDS", None)
    if hs is None:
        return "0"
    lst = hs(tier)
    return str(lst[shard % len(lst)])


def main(argv):
    if len(argv) >= 1 and argv[0] == "--shard":
        pid, tier, seed, shard, nshards, outpath = argv[1:7]
        return run_shard(pid, tier, int(seed), int(shard), int(nshards), outpath)

    if len(argv) < 2:
        print(__doc__)
        return 2
    pid = argv[0].upper()
    seed = int(os.environ.get("VERIF_SEED", "1") or "1")

    if argv[1] == "--replay":
        try:
            hs = str(json.load(open(argv[2])).get("hashseed") or "0")
        except Exception:
            hs = "0"
        if os.environ.get("PYTHONHASHSEED") != hs:
            env = dict(os.environ)
            env["PYTHONHASHSEED"] = hs
            os.execve(sys.executable, [sys.executable, os.path.join(ROOT, "bin", "check.py")] + list(argv), env)
        return replay(pid, argv[2])

    tier = argv[1]
    if tier not in ("quick", "thorough"):
        print("tier must be quick or thorough")
        return 2
    t0 = time.time()
    sys.path.insert(0, ROOT)
    import_gaftools()
    try:
        mod = load_prop(pid)
    except Exception:
        traceback.print_exc()
        return 2
    budget = mod.budget(tier)
    nshards = int(os.environ.get("VERIF_SHARDS", budget.get("shards", 1)))
    outdir = tempfile.mkdtemp(prefix="vfrun_")
    procs = []
    for k in range(nshards):
        env = dict(os.environ)
        env["PYTHONHASHSEED"] = hashseed_for(mod, tier, k)
        env["PYTHONPATH"] = ROOT + os.pathsep + env.get("PYTHONPATH", "")
        env[GUARD] = "1"
        out = os.path.join(outdir, "shard%d.json" % k)
        p = subprocess.Popen(
            [sys.executable, os.path.join(ROOT, "bin", "check.py"), "--shard", pid, tier, str(seed),
             str(k), str(nshards), out],
            env=env,
            cwd=ROOT,
            stdout=subprocess.PIPE,
            stderr=subprocess.STDOUT,
        )
        procs.append((k, p, out))
    merged = Stats()
    errors = []
    gaftools_dir = None
    hashseeds = []
    for k, p, out in procs:
        log, _ = p.communicate()
        if not os.path.exists(out):
            errors.append("shard %d produced no result (exit %s)\n%s" % (k, p.returncode, log.decode(errors="replace")[-3000:]))
            continue
        data = json.load(open(out))
        if data.get("error"):
            errors.append("shard %d: %s" % (k, data["error"]))
        s = data["stats"]
        gaftools_dir = data.get("gaftools", gaftools_dir)
        hashseeds.append(data.get("hashseed"))
        merged.evaluations += s["evaluations"]
        merged.nontrivial |= set(s["nontrivial"])
        for c, v in s["classes"].items():
            merged.classes[c] = merged.classes.get(c, 0) + v
        for c, v in s["known_hits"].items():
            merged.known_hits[c] = merged.known_hits.get(c, 0) + v
        for c, v in s.get("excluded", {}).items():
            merged.excluded[c] = merged.excluded.get(c, 0) + v
        merged.exhaustive += s["exhaustive"]
        for smp in s["samples"]:
            if len(merged.samples) < 4:
                merged.samples.append(smp)
        if s["violation"] and merged.violation is None:
            merged.violation = tuple(s["violation"])
            merged.violation_hashseed = data.get("hashseed")
    shutil.rmtree(outdir, ignore_errors=True)

    wall = time.time() - t0
    known = load_known(pid)
    exhaustive_all = bool(merged.exhaustive) and all(e["complete"] for e in merged.exhaustive)
    evidence = {
        "property_id": pid,
        "tier": tier,
        "seed": seed,
        "level": mod.LEVEL,
        "coverage": {
            "evaluations": merged.evaluations,
            "distinct_nontrivial": len(merged.nontrivial),
            "rule": mod.RULE + (
                " A drawn fraction of the cases runs through the command line (gaftools.__main__.main, every other call with "
                "--debug) or with standard output captured instead of -o; see the via:* rows of the class table."
                if any(c.startswith("via:") for c in merged.classes) else ""),
            "samples": merged.samples,
            "classes": dict(sorted(merged.classes.items())),
            "exhaustive_subspaces": merged.exhaustive,
            "exhaustive": False,
            "known_findings_hit": merged.known_hits,
            "excluded_by_construction": merged.excluded,
            "shards": nshards,
            "hashseeds": sorted(set(h for h in hashseeds if h is not None)),
            "gaftools_imported_from": gaftools_dir,
        },
        "assumptions": list(getattr(mod, "ASSUMPTIONS", [])),
        "wall_s": round(wall, 2),
        "violations": 1 if merged.violation else 0,
    }
    if exhaustive_all and budget.get("examples", 0) == 0:
        evidence["coverage"]["exhaustive"] = True
    evdir = os.path.join(ROOT, "evidence")
    if os.path.realpath(REPO) != "/repo":
        evdir = os.path.join(ROOT, "found", "evidence_other_tree")  # never overwrite /repo's evidence
    os.makedirs(evdir, exist_ok=True)
    with open(os.path.join(evdir, pid + ".json"), "w") as f:
        json.dump(evidence, f, indent=1, sort_keys=True)
        f.write("\n")

    print("check %s tier=%s seed=%d shards=%d evaluations=%d distinct_nontrivial=%d wall=%.1fs gaftools=%s" % (
        pid, tier, seed, nshards, merged.evaluations, len(merged.nontrivial), wall, gaftools_dir))
    for k in sorted(known):
        print("KNOWN-FINDING: property=%s %s (id=%s, re-observed on %d cases in this run)" % (
            pid, known[k]["what"], k, merged.known_hits.get(k, 0)))
    if merged.violation:
        case, msg = merged.violation
        d = os.path.join(ROOT, "found", pid)
        os.makedirs(d, exist_ok=True)
        path = os.path.join(d, case_hash(case)[:12] + ".json")
        with open(path, "w") as f:
            json.dump({"property": pid, "seed": seed, "tier": tier, "message": msg,
                       "hashseed": getattr(merged, "violation_hashseed", None), "case": case}, f, indent=1)
        print("message: %s" % msg[:2000])
        print("VIOLATION property=%s replay=%s" % (pid, path))
        return 1
    if errors:
        print("HARNESS ERROR (inconclusive):")
        for e in errors:
            print(e[:4000])
        return 2
    if merged.evaluations == 0:
        print("HARNESS ERROR: nothing was evaluated")
        return 2
    return 0


def replay(pid, path):
    sys.path.insert(0, ROOT)
    import_gaftools()
    mod = load_prop(pid)
    data = json.load(open(path))
    case = data["case"] if "case" in data and "property" in data else data
    try:
        res = mod.run_case(case)
    except Violation as v:
        print("message: %s" % v)
        print("VIOLATION property=%s replay=%s" % (pid, path))
        return 1
    finally:
        cleanup_tmproot()
    print("replay ok: nontrivial=%s classes=%s known=%s" % (res.nontrivial, res.classes, res.known))
    return 0


