"""BGZF writer with caller-chosen block cuts, and the virtual offset of every line start (DESIGN 4.4)."""

import struct
import zlib

EOF_BLOCK = bytes.fromhex("1f8b08040000000000ff0600424302001b0003000000000000000000")


def _block(data, level=6, header=None):
    assert len(data) <= 65280
    c = zlib.compressobj(level, zlib.DEFLATED, -15)
    comp = c.compress(data) + c.flush()
    if len(comp) + 26 > 65536:  # incompressible: store
        c = zlib.compressobj(0, zlib.DEFLATED, -15)
        comp = c.compress(data) + c.flush()
    bsize = len(comp) + 25
    # MTIME, XFL and OS are free in the BGZF specification (htslib writes 0, 0, 255; other writers do not)
    mtime, xfl, os_ = header or (0, 0, 0xFF)
    head = struct.pack("<BBBBIBBHBBHH", 0x1F, 0x8B, 8, 4, mtime, xfl, os_, 6, 0x42, 0x43, 2, bsize)
    tail = struct.pack("<II", zlib.crc32(data) & 0xFFFFFFFF, len(data) & 0xFFFFFFFF)
    return head + comp + tail


def write_bgzf(path, data, cuts=(), empty_block_before_eof=False, header=None):
    """data: bytes. cuts: uncompressed positions at which a new block starts (any subset of 1..len-1).
    Blocks longer than 65280 bytes are split further. Returns the list of (uncompressed start, compressed start)
    of the data blocks."""
    cuts = sorted({c for c in cuts if 0 < c < len(data)})
    bounds = [0] + cuts + [len(data)]
    pieces = []
    for a, b in zip(bounds, bounds[1:]):
        while b - a > 65280:
            pieces.append((a, a + 65280))
            a += 65280
        if b > a:
            pieces.append((a, b))
    table = []
    with open(path, "wb") as f:
        for a, b in pieces:
            table.append((a, f.tell()))
            f.write(_block(data[a:b], header=tuple(header) if header else None))
        if empty_block_before_eof:
            f.write(_block(b"", header=tuple(header) if header else None))
        f.write(EOF_BLOCK)
    return table


def virtual_offset(table, pos):
    """Virtual offset of uncompressed position pos (the encoding that points inside the block containing pos)."""
    best = None
    for ustart, cstart in table:
        if ustart <= pos:
            best = (ustart, cstart)
    return (best[1] << 16) | (pos - best[0])
