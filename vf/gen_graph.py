"""
Generators of valid reference GFAs (rGFA): bubble chains built by construction (DESIGN 4.1).

A graph model is a plain dict (JSON-serialisable):
    {"nodes": {id: {"seq","ln","sn","so","sr"}},   # insertion order = creation order
     "links": [[a, oa, b, ob], ...],               # as declared (either end)
     "chroms": [{"name": str, "nodes": [ids], "shape": "chain"|<breaker>}]}
"""

import random

from hypothesis import strategies as st

FLIP = {"+": "-", "-": "+"}
COMP = str.maketrans("ACGTN", "TGCAN")


def revcomp(s):
    return s[::-1].translate(COMP)


def random_seq(rnd, n, allow_n=False):
    alphabet = "ACGT"
    s = "".join(rnd.choice(alphabet) for _ in range(n))
    if allow_n and n > 2 and rnd.random() < 0.1:
        i = rnd.randrange(n)
        s = s[:i] + "N" + s[i + 1 :]
    return s


class _Builder:
    def __init__(self, draw, rnd, prefix_pool, start_id, max_ln):
        self.draw = draw
        self.rnd = rnd
        self.nodes = {}
        self.links = []
        self.chroms = []
        self.next_id = start_id
        self.prefix_pool = prefix_pool
        self.max_ln = max_ln
        self.hap_cursor = {}  # contig -> next free position
        self.hap_rank = {}
        self.cycles = False

    # ---- ids
    def new_id(self):
        self.next_id += self.draw(st.integers(1, 3))
        p = self.prefix_pool[0]
        if len(self.prefix_pool) > 1 and self.draw(st.integers(0, 9)) == 0:
            p = self.prefix_pool[1]
        return "%s%d" % (p, self.next_id)

    def length(self):
        return self.draw(st.integers(1, self.max_ln))

    def add_ref(self, chrom):
        n = self.new_id()
        ln = self.length()
        pos = chrom["len"]
        self.nodes[n] = {"seq": random_seq(self.rnd, ln, True), "ln": ln, "sn": chrom["name"], "so": pos, "sr": 0}
        chrom["len"] += ln
        chrom["nodes"].append(n)
        chrom["ref"].append(n)
        return n

    def add_hap(self, chrom, abut_to=None):
        """abut_to: a hap node id; the new node continues its contig right after it when possible."""
        n = self.new_id()
        ln = self.length()
        pool = chrom["haps"]
        contig = None
        if abut_to is not None:
            c = self.nodes[abut_to]["sn"]
            if self.hap_cursor[c] == self.nodes[abut_to]["so"] + self.nodes[abut_to]["ln"]:
                contig = c
                gap = 0
        if contig is None:
            k = self.draw(st.integers(0, len(pool)))
            elsewhere = [c for c in self.hap_cursor if c not in pool]
            if k == len(pool) and elsewhere and self.draw(st.integers(0, 3)) == 0:
                # an assembly contig with segments in more than one chromosome (translocation, chimeric contig)
                contig = self.draw(st.sampled_from(sorted(elsewhere)))
                pool.append(contig)
            elif k == len(pool):
                h = self.draw(st.integers(1, 5))
                contig = "%s#%d#%s.ctg%d" % (self.draw(st.sampled_from(["HG002", "NA1_2", "hap-A", "NA,3", "@hapA"])), h, chrom["name"],
                                             self.draw(st.integers(0, 1)))  # PanSN style: HG002#1#ctg0 and HG002#2#ctg0 are different contigs
                while contig in self.hap_cursor:
                    contig = contig.replace("#%d#" % h, "#%d#" % (h + 1), 1)
                    h += 1
                pool.append(contig)
                self.hap_cursor[contig] = self.draw(st.sampled_from([0, 0, 7, 100]))
                self.hap_rank[contig] = h
            else:
                contig = pool[k]
            gap = self.draw(st.sampled_from([0, 0, 1, 3, 50]))
        so = self.hap_cursor[contig] + gap
        self.hap_cursor[contig] = so + ln
        self.nodes[n] = {"seq": random_seq(self.rnd, ln), "ln": ln, "sn": contig, "so": so, "sr": self.hap_rank[contig]}
        chrom["nodes"].append(n)
        return n

    def link(self, a, oa, b, ob):
        # declared from either end
        if self.draw(st.integers(0, 3)) == 0:
            self.links.append([b, FLIP[ob], a, FLIP[oa]])
        else:
            self.links.append([a, oa, b, ob])

    def has_link(self, a, b):
        return any({l[0], l[2]} == {a, b} for l in self.links)

    # ---- a chain
    def chain(self, name, n_elements, allow_bridge=True, max_ears=3):
        chrom = {"name": name, "nodes": [], "ref": [], "haps": [], "len": 0, "shape": "chain", "bubbles": 0,
                 "features": []}
        prev = self.add_ref(chrom)
        for _ in range(n_elements):
            kind = self.draw(st.sampled_from(["bridge", "bubble", "bubble", "bubble"])) if allow_bridge else "bubble"
            if kind == "bridge":
                nxt = self.add_ref(chrom)
                if getattr(self, "ref_gaps", False) and self.draw(st.integers(0, 3)) == 0:
                    # the reference contig continues but nothing links the two segments (an assembly gap: the contig is
                    # fully tiled by segments, yet it is not one linked path and spans two connected components)
                    chrom["features"].append("unlinked_reference_gap")
                else:
                    self.link(prev, "+", nxt, "+")
                prev = nxt
                continue
            chrom["bubbles"] += 1
            inner = [self.add_ref(chrom) for _ in range(self.draw(st.integers(0, 2)))]
            nxt = self.add_ref(chrom)
            refpath = [prev] + inner + [nxt]
            for a, b in zip(refpath, refpath[1:]):
                self.link(a, "+", b, "+")
            block = list(refpath)
            n_ears = self.draw(st.integers(1, max_ears))
            for e in range(n_ears):
                if e == 0:
                    a, b = prev, nxt
                    mn = 0 if inner else 1
                else:
                    i = self.draw(st.integers(0, len(block) - 2))
                    j = self.draw(st.integers(i + 1, len(block) - 1))
                    a, b = block[i], block[j]
                    mn = 0
                    chrom["features"].append("nested")
                k_in = self.draw(st.integers(mn, 3))
                if k_in == 0:
                    if self.has_link(a, b):
                        continue
                    chrom["features"].append("deletion")
                    self.link(a, "+", b, "+")
                    continue
                mids = []
                for m in range(k_in):
                    abut = mids[-1] if mids and self.draw(st.booleans()) else None
                    mids.append(self.add_hap(chrom, abut_to=abut))
                inv = k_in == 1 and self.draw(st.integers(0, 3)) == 0
                if k_in >= 2:
                    chrom["features"].append("multiseg")
                seqp = [a] + mids + [b]
                # orientation in which the ear leaves a / enters b: a and b are traversed forward
                for x, y in zip(seqp, seqp[1:]):
                    ox = "-" if (inv and x in mids) else "+"
                    oy = "-" if (inv and y in mids) else "+"
                    self.link(x, ox, y, oy)
                if inv:
                    chrom["features"].append("inversion")
                block += mids
            if self.cycles and self.draw(st.integers(0, 1)) == 0:
                # an extra link inside the block (hairpin or back-link): walks can revisit nodes,
                # the block structure is unchanged
                a = self.draw(st.sampled_from(block))
                b = self.draw(st.sampled_from(block))
                oa, ob = self.draw(st.sampled_from([("+", "-"), ("-", "+"), ("+", "+")]))
                if a == b and self.draw(st.booleans()) and not any(l[0] == a and l[2] == a for l in self.links):
                    # a self-link: tandem duplication (+ +) or hairpin (+ -); blocks and articulation points do not change
                    self.links.append([a, "+", a, "+" if (oa, ob) == ("+", "+") else "-"])
                    chrom["features"].append("self_link")
                if a != b and not any(
                    min((l[0], l[1], l[2], l[3]), (l[2], FLIP[l[3]], l[0], FLIP[l[1]]))
                    == min((a, oa, b, ob), (b, FLIP[ob], a, FLIP[oa]))
                    for l in self.links
                ):
                    self.link(a, oa, b, ob)
                    chrom["features"].append("cycle")
            prev = nxt
        if getattr(self, "tips", False) and len(chrom["ref"]) >= 2:
            # a haplotype that extends beyond an end of the reference contig: a segment linked only to the first / last
            # reference segment. The chain stays linear; its terminal element is a bubble without any reference node.
            for end in (0, 1):
                if self.draw(st.integers(0, 2)) == 0:
                    t = self.add_hap(chrom)
                    if end == 0:
                        self.link(t, "+", chrom["ref"][0], "+")
                    else:
                        self.link(prev, "+", t, "+")
                    chrom["bubbles"] += 1
                    chrom["features"].append("end_tip")
        self.chroms.append(chrom)
        return chrom

    def fix_majority(self):
        """name_comps names a component by its most frequent SN; keep the rank-0 contig in the
        strict majority by moving surplus haplotype segments to fresh contig names."""
        for chrom in self.chroms:
            keep = len(chrom["ref"]) - 1  # >= 1 whenever the chromosome has haplotype nodes
            by = {}
            for n in chrom["nodes"]:
                sn = self.nodes[n]["sn"]
                if sn != chrom["name"]:
                    by.setdefault(sn, []).append(n)
            for sn, lst in by.items():
                for k in range(keep, len(lst), keep):
                    for n in lst[k : k + keep]:
                        self.nodes[n]["sn"] = "%s.x%d" % (sn, k // keep)


@st.composite
def rgfa(draw, min_chroms=1, max_chroms=2, max_elements=5, max_ln=9, min_elements=1, allow_bridge=True,
         max_ears=3, cycles=False, ref_gaps=False):
    rnd = random.Random(draw(st.integers(0, 2**30)))
    start = draw(st.sampled_from([0, 0, 6, 95, 996]))
    # segment names are arbitrary non-blank strings: also ids with '.', '-' and '#'
    b = _Builder(draw, rnd, [draw(st.sampled_from(["s", "s", "s", ""])),  # "" = purely numeric ids, as vg / odgi / pggb write them
                             draw(st.sampled_from(["utg", "n", "s0", "s1.", "ctg-", "n#", "b", "s,", "u=", "t;", "@", "@s", "Name", "S", "L"]))], start, max_ln)
    b.cycles = cycles
    b.ref_gaps = ref_gaps and draw(st.integers(0, 3)) == 0
    nchrom = draw(st.integers(min_chroms, max_chroms))
    names = draw(st.permutations(["chr1", "chr2", "chrX", "chr10_alt", "chr1.mat", "chr1.pat", "complete"]))[:nchrom]
    for name in names:
        b.chain(name, draw(st.integers(min_elements, max_elements)), allow_bridge, max_ears)
    b.fix_majority()
    g = {
        "nodes": b.nodes,
        "links": b.links,
        "chroms": [
            {"name": c["name"], "nodes": c["nodes"], "shape": c["shape"], "len": c["len"],
             "features": sorted(set(c["features"])), "bubbles": c["bubbles"]}
            for c in b.chroms
        ],
    }
    if draw(st.integers(0, 5)) == 0:
        # one-character segment names (a segment name is any non-blank string); a few of them at most
        ids = sorted(g["nodes"])
        letters = draw(st.permutations(["r", "e", "f", "c", "t", "S", "L", "x", "_"]))
        k = draw(st.integers(1, min(3, len(ids))))
        picked = draw(st.permutations(ids))[:k]
        mapping = {old: new for old, new in zip(picked, letters) if new not in g["nodes"]}
        g = rename_nodes(g, mapping)
    elif draw(st.integers(0, 7)) == 0 and len(g["nodes"]) >= 2:
        # two segment names that differ only in letter case are two segments
        ids = sorted(g["nodes"])
        a_, b_ = draw(st.permutations(ids))[:2]
        twin = a_.swapcase() if a_.swapcase() != a_ else a_ + "A"
        other = twin.swapcase() if twin.swapcase() != twin else None
        if twin not in g["nodes"] and (a_ + "A" != twin or True):
            if twin == a_ + "A":
                # no letter to flip: make the pair <a>A / <a>a
                low = a_ + "a"
                if low not in g["nodes"]:
                    g = rename_nodes(g, {b_: twin})
                    g = rename_nodes(g, {a_: low}) if False else g
            else:
                g = rename_nodes(g, {b_: twin})
    return g


def rename_nodes(x, mapping):
    """Renames segments everywhere in a generated graph description (ids occur as dict keys and as list items)."""
    if isinstance(x, dict):
        # contig names and sequences are not segment ids, even when they happen to be spelled like one ("2")
        return {mapping.get(k, k) if isinstance(k, str) else k: (v if k in ("sn", "seq", "name") else rename_nodes(v, mapping))
                for k, v in x.items()}
    if isinstance(x, (list, tuple)):
        return type(x)(rename_nodes(v, mapping) for v in x)
    if isinstance(x, str):
        return mapping.get(x, x)
    return x


# ------------------------------------------------------------------------------------------
# rendering


_OVERLAPS = ["0M", "1M", "0M", "3M", "12M", "0M", "25M", "7M", "130M", "2M"]
_TAG_ORDERS = [(0, 1, 2, 3), (3, 1, 2, 0), (1, 3, 0, 2), (2, 3, 1, 0), (0, 1, 2, 3), (3, 2, 1, 0)]


def gfa_lines(g, with_seq=True, extra_tags=None, link_tags=None, tag_order=None, overlap_seed=None):
    """S and L lines (lists of strings, no newline). extra_tags: id -> list of 'TAG:T:V' strings."""
    s_lines = []
    for k_, (n, d) in enumerate(g["nodes"].items()):
        tags = ["LN:i:%d" % d["ln"], "SN:Z:%s" % d["sn"], "SO:i:%d" % d["so"], "SR:i:%d" % d["sr"]]
        if tag_order is not None:
            # the order of optional fields on a line is free
            tags = [tags[i] for i in _TAG_ORDERS[(tag_order + k_) % len(_TAG_ORDERS)]]
        if extra_tags and n in extra_tags:
            tags += list(extra_tags[n])
        s_lines.append("\t".join(["S", n, d["seq"] if with_seq else "*"] + tags))
    l_lines = []
    for i, (a, oa, b_, ob) in enumerate(g["links"]):
        # the overlap column is carried, never interpreted: a path's sequence is the concatenation of its segments
        ov = "0M" if overlap_seed is None else _OVERLAPS[(overlap_seed + 3 * i) % len(_OVERLAPS)]
        line = "L\t%s\t%s\t%s\t%s\t%s" % (a, oa, b_, ob, ov)
        if link_tags and i in link_tags:
            line += "\t" + "\t".join(link_tags[i])
        l_lines.append(line)
    return s_lines, l_lines


def gfa_text(g, with_seq=True, extra_tags=None, order_seed=None, header=False, link_tags=None, overlap_seed=None):
    s_lines, l_lines = gfa_lines(g, with_seq, extra_tags, link_tags, overlap_seed=overlap_seed,
                                 tag_order=(order_seed if (order_seed is not None and order_seed % 3 == 1) else None))
    lines = s_lines + l_lines
    if order_seed is not None and order_seed % 4 == 3:
        # segments listed end-to-start (descending offsets), links after them: a common layout of hand-assembled files
        lines = list(reversed(s_lines)) + l_lines
    elif order_seed is not None:
        random.Random(order_seed).shuffle(lines)
    if header:
        lines = ["H\tVN:Z:1.0"] + lines
    if order_seed is not None and order_seed % 5 == 2 and s_lines:
        # other record types of the GFA family between the S and L lines: comments, a header, paths and walks
        first = s_lines[0].split("\t")[1]
        extra = ["# produced by a pipeline", "", "H\tVN:Z:1.1", "P\tpath1\t%s+\t*" % first,
                 "W\tsample\t1\tctg\t0\t1\t>%s" % first]
        rnd = random.Random(order_seed)
        for e in extra:
            lines.insert(rnd.randint(0, len(lines)), e)
    return "\n".join(lines) + "\n"


# ------------------------------------------------------------------------------------------
# raw GFA text (C07-A, C14, C15): arbitrary small graphs, all orientation combinations, self-links


def _tag_value(draw, ty):
    if ty == "A":
        return draw(st.sampled_from(list("Az9*+-:;!~")))
    if ty == "i":
        return draw(st.sampled_from(["0", "7", "-5", "+3", "123456"]))
    if ty == "f":
        return draw(st.sampled_from(["0.5", "-.5", "1e-5", "+3.25", "7", "2.5E+3"]))
    if ty == "Z":
        body = draw(st.text(alphabet="abXY09_#.-:*/= ", min_size=0, max_size=8))
        return body.strip(" ") if body.strip(" ") else draw(st.sampled_from(["", "x"]))
    if ty == "H":
        return draw(st.sampled_from(["", "1A", "00FF"]))
    if ty == "B":
        # arrays of every integer subtype with their extreme values
        return draw(st.sampled_from(["c,1,-2", "f,0.5,1e3", "I,7", "S", "C,0,128,255", "c,-128,127", "s,-32768,32767", "S,0,65535",
                                     "i,-2147483648,2147483647", "I,0,4294967295"]))
    raise AssertionError(ty)


@st.composite
def sam_tags(draw, max_tags=3, reserved=()):
    names = draw(st.lists(
        st.sampled_from(["xx", "Xy", "ab", "zZ", "q1", "R2", "kc", "RC", "dp"]), max_size=max_tags, unique=True))
    out = []
    for nm in names:
        if nm in reserved:
            continue
        ty = draw(st.sampled_from("AifZHB"))
        out.append("%s:%s:%s" % (nm, ty, _tag_value(draw, ty)))
    for i_ in range(len(out) - 1):
        # a Z value may end in a blank as long as another column follows (a line's own trailing blank is the loader's business)
        if out[i_].split(":")[1] == "Z" and draw(st.integers(0, 3)) == 0:
            out[i_] += " "
    return out


@st.composite
def raw_gfa(draw, max_nodes=7, max_links=12, seq_mode="seq", link_tags=True, seg_tags=True, other_lines=True,
            id_pool=None, max_ln=10, soft_masked=False, no_final_newline_ok=False):
    """Returns {"segments": [[id, seq, [tags]]], "links": [[a,oa,b,ob,overlap,[tags]]], "text": str}."""
    rnd = random.Random(draw(st.integers(0, 2**30)))
    pool = id_pool or ["a", "b", "c", "s1", "s2", "s10", "n3", "0", "x_y"]
    n = draw(st.integers(1, max_nodes))
    ids = draw(st.permutations(pool))[:n]
    segs = []
    for i in ids:
        if seq_mode == "seq":
            seq = random_seq(rnd, draw(st.integers(1, max_ln)), True)
        elif seq_mode == "star":
            seq = "*"
        else:
            seq = "*" if draw(st.booleans()) else random_seq(rnd, draw(st.integers(1, max_ln)))
        if soft_masked and seq != "*" and draw(st.integers(0, 5)) == 0:
            # IUPAC codes that are their own complement (strong / weak): reverse-complementing keeps the letter
            k = draw(st.integers(0, len(seq) - 1))
            seq = seq[:k] + draw(st.sampled_from("SWsw")) + seq[k + 1:]
        if soft_masked and seq != "*" and draw(st.integers(0, 3)) == 0:
            k = draw(st.integers(0, len(seq)))
            seq = seq[:k] + seq[k:].lower()  # soft-masked bases are part of the sequence
        segs.append([i, seq, draw(sam_tags()) if seg_tags else []])
    links = []
    seen = {}
    nl = draw(st.integers(0, max_links))
    for _ in range(nl):
        a = draw(st.sampled_from(ids))
        b = draw(st.sampled_from(ids))
        oa = draw(st.sampled_from("+-"))
        ob = draw(st.sampled_from("+-"))
        key = min((a, oa, b, ob), (b, FLIP[ob], a, FLIP[oa]))
        if key in seen:
            # the same adjacency again: either skip, or declare it again (possibly from the other end) identically
            if draw(st.booleans()):
                continue
            ov, tags = seen[key]
            if not tags and draw(st.integers(0, 3)) == 0 and (key, "par") not in seen:
                # a second, distinct link between the same segment ends: it differs in its overlap
                seen[(key, "par")] = True
                links.append([a, oa, b, ob, ov + 2, []])
                continue
            if draw(st.booleans()):
                a, oa, b, ob = b, FLIP[ob], a, FLIP[oa]
            links.append([a, oa, b, ob, ov, list(tags)])
            continue
        ov = draw(st.sampled_from([0, 0, 0, 1, 5, 12, 30, 250]))  # overlaps of one, two and three digits
        tags = draw(sam_tags(max_tags=2)) if (link_tags and draw(st.booleans())) else []
        seen[key] = (ov, tags)
        links.append([a, oa, b, ob, ov, list(tags)])
    lines = []
    for i, seq, tags in segs:
        lines.append("\t".join(["S", i, seq] + tags))
    for a, oa, b, ob, ov, tags in links:
        lines.append("\t".join(["L", a, oa, b, ob, "%dM" % ov] + tags))
    if other_lines:
        for _ in range(draw(st.integers(0, 3))):
            lines.append(draw(st.sampled_from([
                "H\tVN:Z:1.0", "# a comment", "P\tp1\t%s+\t*" % ids[0], "W\tsample\t1\tctg\t0\t5\t>%s" % ids[0],
                "C\t%s\t+\t%s\t+\t0\t1M" % (ids[0], ids[-1]),
            ])))
    order = draw(st.permutations(range(len(lines))))
    lines = [lines[k] for k in order]
    text = "\n".join(lines) + "\n"
    if no_final_newline_ok and draw(st.integers(0, 5)) == 0:
        text = text[:-1]
    return {"segments": segs, "links": links, "text": text}


@st.composite
def any_graph(draw, tier, real_fraction=8, max_window=30, real_with_seq=False, **kw):
    """rgfa(**kw), or - in the thorough tier, one case in `real_fraction` - a window of the real test graph."""
    if tier == "thorough" and draw(st.integers(0, real_fraction - 1)) == 0:
        from vf import realgraph

        n = realgraph.n_elements()
        return realgraph.window(draw(st.integers(0, n - 3)), draw(st.integers(2, max_window)),
                                seq_seed=draw(st.integers(0, 10**6)) if real_with_seq else None)
    return draw(rgfa(**kw))
