"""Shared pieces of the coordinate-conversion checks (C01, C02, and the --format paths of C04/C05/C16/C17)."""

from hypothesis import strategies as st

from vf import core, gen_gaf, gen_graph, models


def stable_line(nodes, rec, cg="same"):
    """The model's canonical stable serialisation of an unstable record dict."""
    steps = [tuple(s) for s in rec["steps"]]
    strand, path, plen, s, e = models.canonical_stable(nodes, steps, rec["ps"], rec["pe"])
    c = rec["cg"]
    if c is not None and strand == "-":
        c = models.reverse_cigar(c)
    return gen_gaf.record_line(rec, path=path, strand=strand, plen=plen, ps=s, pe=e, cg=c)


def view_convert(gfa_text, lines, fmt, gz_gfa=False, via="api"):
    """Run `gaftools view --format fmt` on a GAF given as lines (api call, or through the command line, or with
    standard output captured). Returns (call result, output lines or None)."""
    from vf import idx

    with core.workdir() as d:
        core.write_text(d + "/g.gfa", gfa_text)
        core.write_text(d + "/in.gaf", "".join(l + "\n" for l in lines))
        res, out_lines = idx.run_view(d, d + "/in.gaf", d + "/g.gfa", d + "/out.gaf", fmt=fmt, via=via)
    return res, out_lines


def locus(nodes, bmap, line):
    """Spelled aligned target bases (read orientation), the path length implied by the path, and basic fields."""
    f = line.split("\t")
    strand, path = f[4], f[5]
    plen, ps, pe = int(f[6]), int(f[7]), int(f[8])
    cg = None
    for t in f[12:]:
        if t.startswith("cg:Z:"):
            cg = t[5:]
    if ">" in path or "<" in path:
        if ":" in path:
            spelled = models.spelled_locus_stable(bmap, strand, path, ps, pe)
            implied = models.stable_path_length(nodes, path)
        else:
            steps = models.parse_path(path)
            if any(n not in nodes for _, n in steps):
                return None
            full = models.spell_unstable(nodes, steps)
            implied = len(full)
            spelled = full[ps:pe] if 0 <= ps <= pe <= len(full) else None
            if spelled is not None and strand == "-":
                spelled = models.revcomp(spelled)
    else:
        spelled = models.spelled_locus_stable(bmap, strand, path, ps, pe)
        implied = models.stable_path_length(nodes, path)
    return {"strand": strand, "path": path, "plen": plen, "ps": ps, "pe": pe, "cg": cg, "spelled": spelled,
            "implied_len": implied}


def path_features(nodes, steps):
    """Labels describing what makes a walk interesting for conversion."""
    out = set()
    if len(steps) >= 2:
        out.add("multi_node")
    strand, path, _, _, _ = models.canonical_stable(nodes, steps, 0, 1)
    if strand == "-":
        out.add("strand_flip")
    if ">" in path or "<" in path:
        ivs = models.parse_stable_path(path)[1]
        if len(ivs) < len(steps):
            out.add("merged_interval")
        if any(o == "<" for o, _, _, _ in ivs) and len(ivs) < len(steps):
            out.add("merged_reverse")
    elif len(steps) >= 2:
        out.add("merged_interval")
        out.add("bare_contig")
    ref_run = 0
    best = 0
    for o, n in steps:
        if nodes[n]["sr"] == 0:
            ref_run += 1
            best = max(best, ref_run)
        else:
            ref_run = 0
    if best >= 3:
        out.add("ref_run>=3")
    ids = [n for _, n in steps]
    if len(set(ids)) < len(ids):
        out.add("revisit")
    if len({o for o, _ in steps}) == 2:
        out.add("mixed_orientation")
    # haplotype contig with separated segments on the path
    by = {}
    for n, d in nodes.items():
        if d["sr"] != 0:
            by.setdefault(d["sn"], []).append((d["so"], d["so"] + d["ln"]))
    for _, n in steps:
        d = nodes[n]
        if d["sr"] != 0:
            segs = sorted(by[d["sn"]])
            if len(segs) >= 2 and any(a[1] != b[0] for a, b in zip(segs, segs[1:])):
                out.add("hap_separated_segments")
    return out


@st.composite
def graph_and_records(draw, canonical, max_records, min_records=1, tags=True, max_chroms=2, max_elements=5, tier="quick",
                      real=False, real_with_seq=False):
    if real:
        g = draw(gen_graph.any_graph(tier, max_chroms=max_chroms, max_elements=max_elements, real_with_seq=real_with_seq,
                                     max_window=8 if real_with_seq else 30, cycles=True, ref_gaps=True))
    else:
        g = draw(gen_graph.rgfa(max_chroms=max_chroms, max_elements=max_elements, cycles=True, ref_gaps=True))
    lm = models.LinkModel(g["links"])
    n = draw(st.integers(min_records, max_records))
    closed = gen_gaf.revisit_walks(g, lm) if (len(g["nodes"]) <= 60 and draw(st.booleans())) else []
    recs = []
    for i in range(n):
        # hairpins and back links: walks that turn around (same contig, opposite orientation, abutting intervals)
        prefix = draw(st.sampled_from(closed)) if (closed and draw(st.integers(0, 3)) == 0) else None
        recs.append(draw(gen_gaf.record(g, lm, canonical=canonical, name="rd%d" % i, tags=tags,
                                        with_cigar=draw(st.integers(0, 9)) > 0, prefix=prefix, max_len=4 if prefix else 8,
                                        # conversion only reverses the CIGAR: M runs and N (reference skip) runs are legal too
                                        cigar_ops=draw(st.sampled_from(["=XID", "=XID", "=XIDMN"])))))
    return g, recs


# ------------------------------------------------------------------------------------------
# exhaustive sub-space: every walk of 1..3 steps over a small fixed graph x boundary offsets

FIXED_NODES = {
    "r1": {"seq": "ACG", "ln": 3, "sn": "chr1", "so": 0, "sr": 0},
    "r2": {"seq": "T", "ln": 1, "sn": "chr1", "so": 3, "sr": 0},
    "r3": {"seq": "GGCA", "ln": 4, "sn": "chr1", "so": 4, "sr": 0},
    "r4": {"seq": "TC", "ln": 2, "sn": "chr1", "so": 8, "sr": 0},
    "a1": {"seq": "CA", "ln": 2, "sn": "HG002#1#ctg1", "so": 100, "sr": 1},
    "a2": {"seq": "TTG", "ln": 3, "sn": "HG002#1#ctg1", "so": 102, "sr": 1},
    "a3": {"seq": "GAT", "ln": 3, "sn": "HG002#1#ctg1", "so": 200, "sr": 1},
    "b1": {"seq": "AG", "ln": 2, "sn": "HG002#2#ctg1", "so": 0, "sr": 2},
    "r5": {"seq": "CT", "ln": 2, "sn": "chr1", "so": 10, "sr": 0},
    "r6": {"seq": "GA", "ln": 2, "sn": "chr1", "so": 12, "sr": 0},
    "r7": {"seq": "T", "ln": 1, "sn": "chr1", "so": 14, "sr": 0},
}
FIXED_LINKS = [
    ["r1", "+", "r2", "+"], ["r2", "+", "r3", "+"], ["r3", "+", "r4", "+"],      # the reference path
    ["r1", "+", "a1", "+"], ["a1", "+", "a2", "+"], ["a2", "+", "r3", "+"],      # an allele of two abutting segments
    ["r2", "+", "b1", "-"], ["b1", "-", "r3", "+"],                              # an inverted allele
    ["r3", "+", "a3", "+"], ["a3", "+", "r4", "+"],                              # a separated segment of the same contig
    ["r1", "+", "r3", "+"],                                                      # a deletion
    ["r4", "+", "r3", "-"],                                                      # a hairpin
    ["r3", "+", "r2", "+"],                                                      # a tandem duplication (back link)
    ["r4", "+", "r5", "+"], ["r5", "+", "r6", "+"], ["r6", "+", "r7", "+"],      # the reference continues
    ["r5", "+", "r5", "+"],                                                      # a self-link (tandem repeat of one segment)
    ["r5", "+", "r7", "+"],                                                      # a deletion of a segment as long as the repeated one
]


def fixed_graph():
    return {"nodes": {k: dict(v) for k, v in FIXED_NODES.items()}, "links": [list(l) for l in FIXED_LINKS]}


def all_walks(g, max_steps=3):
    lm = models.LinkModel(g["links"])
    out = []
    frontier = [[(n, o)] for n in g["nodes"] for o in "+-"]
    for _ in range(max_steps):
        out += frontier
        nxt = []
        for w in frontier:
            for step in lm.steps(*w[-1]):
                nxt.append(w + [step])
        frontier = nxt
    return [[(">" if o == "+" else "<", n) for n, o in w] for w in out]


def small_space_records(canonical, max_steps=3):
    g = fixed_graph()
    recs = []
    k = 0
    for steps in all_walks(g, max_steps):
        lens = [g["nodes"][n]["ln"] for _, n in steps]
        total = sum(lens)
        starts = sorted({0, 1, lens[0] - 1, lens[0]} & set(range(total)))
        ends = sorted({total, total - 1, total - lens[-1] + 1, total - lens[-1]} & set(range(1, total + 1)))
        for ps in starts:
            for pe in ends + [ps + 1]:
                if not (ps < pe <= total):
                    continue
                if canonical and not (ps < lens[0] and pe > total - lens[-1]):
                    continue
                n = pe - ps
                cg = "%d=" % n if n == 1 else "1X%d=" % (n - 1)
                k += 1
                recs.append({"name": "e%d" % k, "qlen": n + 2, "qs": 1, "qe": n + 1, "strand": "+", "steps": [list(s) for s in steps],
                             "plen": total, "ps": ps, "pe": pe, "matches": n - (0 if n == 1 else 1), "block": n, "mapq": 60,
                             "cg": cg, "tags": ["NM:i:%d" % (k % 7)], "cg_pos": k % 2})
    return g, recs
