"""Shared pieces of the realign checks (C11, C12, C13, C16, C17)."""

import os
import random

from hypothesis import strategies as st

from vf import core, fakemp, gen_gaf, gen_graph, models

BASES = "ACGT"


def merge_ops(ops):
    out = []
    for n, op in ops:
        if n == 0:
            continue
        if out and out[-1][1] == op:
            out[-1] = (out[-1][0] + n, op)
        else:
            out.append((n, op))
    return out


@st.composite
def edit_script(draw, ref, rnd, max_edit_pct=40):
    """Derive a read segment from ref by substitutions / insertions / deletions.
    Returns (segment, ops) where ops is a valid CIGAR (run-length merged) of segment vs ref."""
    rate = draw(st.sampled_from([0, 0, 5, 15, max_edit_pct])) / 100.0
    long_indel = draw(st.integers(0, 3)) == 0
    seg = []
    ops = []
    i = 0
    n = len(ref)
    while i < n:
        r = rnd.random()
        if r < rate:
            kind = rnd.choice("XID")
            if kind == "X" and ref[i] in BASES:
                seg.append(rnd.choice([b for b in BASES if b != ref[i]]))
                ops.append((1, "X"))
                i += 1
            elif kind == "I":
                k = rnd.randint(1, 12 if long_indel else 2)
                seg.append("".join(rnd.choice(BASES) for _ in range(k)))
                ops.append((k, "I"))
            else:
                k = min(rnd.randint(1, 12 if long_indel else 2), n - i)
                ops.append((k, "D"))
                i += k
        else:
            seg.append(ref[i])
            ops.append((1, "="))
            i += 1
    segment = "".join(seg)
    if not segment:  # keep at least one read base
        segment = rnd.choice(BASES)
        ops.append((1, "I"))
    return segment, merge_ops(ops)


def fragment_ops(ops, rnd, pct=30):
    """Replace some '='/'X' columns by an insertion+deletion pair: still a valid alignment, but costlier."""
    out = []
    for n, op in ops:
        if op in "=X":
            for _ in range(n):
                if rnd.randint(0, 99) < pct:
                    out.append((1, "I"))
                    out.append((1, "D"))
                else:
                    out.append((1, op))
        else:
            out.append((n, op))
    return merge_ops(out)


def cigar_str(ops):
    return "".join("%d%s" % x for x in ops)


@st.composite
def realign_record(draw, g, lm, name, rnd, tags=None, fragmented=None, max_len=5, with_cigar=True, comment="",
                   prefix=None):
    steps = draw(gen_gaf.walk(g, lm, max_len=max_len, prefix=prefix))
    full = models.spell_unstable(g["nodes"], steps)
    total = len(full)
    ps = draw(st.integers(0, total - 1))
    pe = draw(st.integers(ps + 1, total))
    ref = full[ps:pe]
    seg, ops = draw(edit_script(ref, rnd))
    frag = draw(st.integers(0, 3)) == 0 if fragmented is None else fragmented
    in_ops = fragment_ops(ops, rnd) if frag else ops
    pre = "".join(rnd.choice(BASES) for _ in range(draw(st.integers(0, 6))))
    suf = "".join(rnd.choice(BASES) for _ in range(draw(st.integers(0, 6))))
    read = pre + seg + suf
    t = list(tags) if tags is not None else draw(gen_gaf.plain_tags())
    cg = cigar_str(in_ops)
    if with_cigar:
        t.insert(draw(st.integers(0, len(t))), "cg:Z:" + cg)
    matches = sum(n for n, o in in_ops if o == "=")
    block = sum(n for n, o in in_ops)
    line = "\t".join([name + comment, str(len(read)), str(len(pre)), str(len(pre) + len(seg)), "+", models.path_str(steps),
                      str(total), str(ps), str(pe), str(matches), str(block),
                      str(draw(st.sampled_from([0, 1, 60, 255])))] + t)
    return line, read


def soft_mask(draw, g):
    """Soft-masked (lower-case) stretches in the segment sequences; reads derived from them keep the case."""
    if draw(st.integers(0, 3)) == 0:
        for d in g["nodes"].values():
            k = draw(st.integers(0, 3))
            if k == 0:
                d["seq"] = d["seq"].lower()
            elif k == 1:
                h = len(d["seq"]) // 2
                d["seq"] = d["seq"][:h] + d["seq"][h:].lower()


def wrap_fasta(text, width):
    """Re-wraps an unwrapped FASTA text at `width` columns (every sequence line but the last of a record is full)."""
    if not width:
        return text
    out = []
    for l in text.split("\n"):
        if l.startswith(">") or not l:
            out.append(l)
        else:
            out += [l[i:i + width] for i in range(0, len(l), width)]
    return "\n".join(out)


def parse_fasta(text):
    reads, name = {}, None
    for l in text.split("\n"):
        if l.startswith(">"):
            name = l[1:].split(" ")[0]
            reads[name] = ""
        elif l and name is not None:
            reads[name] += l
    return reads


@st.composite
def realign_inputs(draw, min_records=1, max_records=14, max_ln=12, max_chroms=1):
    rnd = random.Random(draw(st.integers(0, 2**30)))
    g = draw(gen_graph.rgfa(max_chroms=max_chroms, max_elements=3, max_ln=max_ln, cycles=True))
    # realign needs plain ACGT for an exact replay of '=' / 'X' columns
    for d in g["nodes"].values():
        d["seq"] = d["seq"].replace("N", "A")
    soft_mask(draw, g)
    lm = models.LinkModel(g["links"])
    n = draw(st.integers(min_records, max_records))
    lines, fasta = [], []
    style = draw(st.sampled_from(["rd%d"] * 6 + ["se\u00f1al_%d", '"q"/%d/ccs']))  # text files are UTF-8
    names = [style % i for i in range(n)]
    rnd.shuffle(names)  # read names are not in any particular order in a GAF
    for i in range(n):
        line, read = draw(realign_record(g, lm, names[i], rnd))
        lines.append(line)
        fasta.append(">%s\n%s\n" % (names[i], read))
    ov = draw(st.integers(0, 20))
    return {"gfa": gen_graph.gfa_text(g, with_seq=True, order_seed=draw(st.integers(0, 99)),
                                      overlap_seed=ov if ov < 7 else None), "gaf": lines,
            # reads files are usually wrapped at 60-80 columns
            "fasta": wrap_fasta("".join(fasta), draw(st.sampled_from([None, None, 60, 7, 3])))}


def run_realign(case, d, platform=None, cores=None, batch=None, sub="out.gaf", gaf_name="in.gaf", gz_gaf=None,
                gfa_name="g.gfa", recorder=None, via="api"):
    """Run the real run_realign (in-process). platform: a fakemp.Platform replacing realign.mp, or None for
    real processes. Returns (call result, output text or None)."""
    import gaftools.cli.realign as R

    if not os.path.exists(os.path.join(d, gfa_name)):
        core.write_text(os.path.join(d, gfa_name), case["gfa"])
    gaf_path = os.path.join(d, gaf_name)
    if not os.path.exists(gaf_path):
        core.write_text(gaf_path, "".join(l + "\n" for l in case["gaf"]))
    fa = os.path.join(d, "reads.fa")
    if not os.path.exists(fa):
        core.write_text(fa, case["fasta"])
    out = os.path.join(d, sub)
    if len(case["gaf"]) % 2 == 1 and not os.path.exists(out):
        core.write_text(out, "left over from an earlier run\n" * 3)  # -o names a file that exists: it is replaced
    stdout_text = None
    old_mp = R.mp
    old_env = os.environ.get("GAFTOOLS_VERIF_REALIGN_BATCH")
    b = batch if batch is not None else case.get("batch")
    if b:
        os.environ["GAFTOOLS_VERIF_REALIGN_BATCH"] = str(b)
    else:
        os.environ.pop("GAFTOOLS_VERIF_REALIGN_BATCH", None)
    old_aligner = R.WavefrontAligner
    if recorder is not None:
        R.WavefrontAligner = recorder(old_aligner)
    if platform is not None:
        R.mp = platform
    try:
        ncores = cores if cores is not None else case.get("cores", 1)
        try:
            if via == "cli":
                res = core.cli(["realign", gaf_path, os.path.join(d, gfa_name), fa, "-o", out, "-c", ncores])
            elif via == "cli_stdout":
                # without -o the records go to standard output
                res = core.cli(["realign", gaf_path, os.path.join(d, gfa_name), fa, "-c", ncores], capture_stdout=True)
                stdout_text = res[1] if res[0] == "ok" else None
                if res[0] == "ok":
                    res = ("ok", None)
            else:
                res = core.call(R.run_realign, gaf_path, os.path.join(d, gfa_name), fa, out, ncores)
        except fakemp.Hang:
            res = ("hang", None)
        except fakemp.Unsupported as e:
            raise RuntimeError("inconclusive: %s" % e)
    finally:
        R.mp = old_mp
        R.WavefrontAligner = old_aligner
        if old_env is None:
            os.environ.pop("GAFTOOLS_VERIF_REALIGN_BATCH", None)
        else:
            os.environ["GAFTOOLS_VERIF_REALIGN_BATCH"] = old_env
    if via == "cli_stdout":
        return res, stdout_text
    try:
        text = core.read_text(out)
    except OSError:
        text = None
    return res, text


class _Done:
    def __init__(self, returncode, stderr):
        self.returncode, self.stderr = returncode, stderr


def run_group(argv, timeout):
    """Run a command in its own process group; on timeout kill the whole group (workers included) and return None."""
    import signal
    import subprocess

    p = subprocess.Popen(argv, stdout=subprocess.DEVNULL, stderr=subprocess.PIPE, start_new_session=True)
    try:
        _, err = p.communicate(timeout=timeout)
        return _Done(p.returncode, err)
    except subprocess.TimeoutExpired:
        return None
    finally:
        try:
            os.killpg(p.pid, signal.SIGKILL)  # also reaps workers a failed run left behind
        except (ProcessLookupError, PermissionError):
            pass
        try:
            p.communicate(timeout=10)
        except Exception:
            pass


def run_realign_subprocess(case, d, cores, batch, nofile=4096, timeout=180, out_name="out.gaf"):
    """Real multiprocessing, in a child process with a time limit (a deadlock must not take the harness with it).
    Returns ("ok"|"exit"|"timeout", status) and the output text or None."""
    import subprocess
    import sys as _sys

    core.write_text(os.path.join(d, "g.gfa"), case["gfa"])
    core.write_text(os.path.join(d, "in.gaf"), "".join(l + "\n" for l in case["gaf"]))
    core.write_text(os.path.join(d, "reads.fa"), case["fasta"])
    out = os.path.join(d, "out.gaf")
    if os.path.exists(out):
        os.remove(out)
    drv = os.path.join(os.path.dirname(os.path.abspath(__file__)), "real_run_driver.py")
    res = run_group([_sys.executable, drv, core.REPO, d, str(cores), str(batch or 1000), str(nofile)], timeout)
    if res is None:
        return ("timeout", timeout), None
    p = res
    text = core.read_text(out) if os.path.exists(out) else None
    if p.returncode == 0:
        return ("ok", None), text
    return ("exit", "%d %s" % (p.returncode, p.stderr.decode(errors="replace")[-200:])), text
