"""
Generators of walks, GAF records, CIGARs and optional fields (DESIGN 4.2, 4.3).
"""

from hypothesis import strategies as st

from vf.models import LinkModel


@st.composite
def walk(draw, g, lm=None, max_len=8, start_pool=None, revisit_bias=False, prefix=None):
    """A random walk on the link model: list of (orient, node)."""
    lm = lm or LinkModel(g["links"])
    ids = start_pool or list(g["nodes"])
    if prefix:
        steps = [tuple(x) for x in prefix]
        n = steps[-1][1]
        o = "+" if steps[-1][0] == ">" else "-"
        want = len(steps) + draw(st.integers(0, max_len))
    else:
        n = draw(st.sampled_from(ids))
        o = draw(st.sampled_from("++-"))
        steps = [(">" if o == "+" else "<", n)]
        want = draw(st.integers(1, max_len))
    while len(steps) < want:
        nxt = lm.steps(n, o)
        if not nxt:
            break
        if revisit_bias:
            seen = {x for _, x in steps}
            back = [x for x in nxt if x[0] in seen]
            if back and draw(st.booleans()):
                nxt = back
        n, o = draw(st.sampled_from(nxt))
        steps.append((">" if o == "+" else "<", n))
    return steps


@st.composite
def cigar_for(draw, path_span, max_runs=6, ops_alphabet="=XID"):
    """A CIGAR over = X I D (run-length normal form) consuming exactly path_span path bases.
    Returns (cigar, query_span, matches, block)."""
    ops = []
    remaining = path_span
    last = None
    nruns = draw(st.integers(1, max_runs))
    for k in range(nruns):
        choices = [c for c in ops_alphabet if c != last]
        if remaining == 0:
            choices = [c for c in choices if c == "I"]
            if not choices:
                break
        op = draw(st.sampled_from(choices))
        if op == "I":
            n = draw(st.integers(1, 5))
        else:
            if k == nruns - 1:
                n = remaining
            else:
                n = draw(st.integers(1, remaining))
            remaining -= n
        ops.append((n, op))
        last = op
    if remaining > 0:
        op = "=" if last != "=" else "X"
        ops.append((remaining, op))
    if draw(st.integers(0, 7)) == 0:
        # a CIGAR need not be in run-length normal form: 30=20= is the same alignment as 50= and is reproduced as written
        split = []
        for n, op in ops:
            if n >= 2 and draw(st.booleans()):
                k_ = draw(st.integers(1, n - 1))
                split += [(k_, op), (n - k_, op)]
            else:
                split.append((n, op))
        ops = split
    cg = "".join("%d%s" % x for x in ops)
    qspan = sum(n for n, op in ops if op in "=XIM")
    matches = sum(n for n, op in ops if op == "=")
    block = sum(n for n, _ in ops)
    return cg, qspan, matches, block


def revisit_walks(g, lm, max_depth=6):
    """All shortest closed walks (first node == last node, any orientation), one per oriented start, by BFS."""
    out = []
    for n in g["nodes"]:
        for o in "+-":
            frontier = [[(n, o)]]
            found = None
            for _ in range(max_depth):
                nxt_frontier = []
                for path in frontier:
                    for m, mo in lm.steps(*path[-1]):
                        p2 = path + [(m, mo)]
                        if m == n:
                            found = p2
                            break
                        if len(nxt_frontier) < 200:
                            nxt_frontier.append(p2)
                    if found:
                        break
                if found:
                    break
                frontier = nxt_frontier
            if found:
                out.append([(">" if oo == "+" else "<", nn) for nn, oo in found])
    return out


PLAIN_TAGS = [
    ("NM", "i", st.integers(0, 99).map(str)),
    ("AS", "i", st.integers(0, 9999).map(str)),
    ("dv", "f", st.sampled_from(["0.0123", "0.5", "12.25", "0"])),
    ("id", "f", st.sampled_from(["0.998", "1", "0.75"])),
    ("tp", "A", st.sampled_from(["P", "S"])),
    ("zz", "Z", st.text(alphabet="abcXYZ019", min_size=1, max_size=6)),
    ("cm", "i", st.integers(0, 500).map(str)),
    # difference strings and MD: direction-dependent like the CIGAR, but ordinary optional fields (never rewritten)
    ("cs", "Z", st.sampled_from([":6*at:5-c:3+gg", ":7", "=ACGT*ag=TT-a", ":2+t:9"])),
    ("MD", "Z", st.sampled_from(["10A5^AC6", "7", "3T0G2"])),
]


@st.composite
def plain_tags(draw, max_tags=3):
    """Optional fields from the subset every gaftools version reproduces (alphanumerics, simple decimals)."""
    idx = draw(st.lists(st.integers(0, len(PLAIN_TAGS) - 1), max_size=max_tags, unique=True))
    out = []
    for i in idx:
        t, ty, vs = PLAIN_TAGS[i]
        out.append("%s:%s:%s" % (t, ty, draw(vs)))
    return out


@st.composite
def record(draw, g, lm=None, canonical=False, name=None, max_len=8, with_cigar=True, tags=True,
           start_pool=None, steps=None, revisit_bias=False, prefix=None, cigar_ops="=XID"):
    """An unstable '+'-strand record over a walk. Returns a dict."""
    if steps is None:
        steps = draw(walk(g, lm, max_len=max_len, start_pool=start_pool, revisit_bias=revisit_bias, prefix=prefix))
    lens = [g["nodes"][n]["ln"] for _, n in steps]
    total = sum(lens)
    if canonical:
        ps = draw(st.integers(0, lens[0] - 1))
        lo = max(ps + 1, total - lens[-1] + 1)
        pe = draw(st.integers(lo, total))
    else:
        ps = draw(st.integers(0, total - 1))
        pe = draw(st.integers(ps + 1, total))
    cg, qspan, matches, block = draw(cigar_for(pe - ps, ops_alphabet=cigar_ops))
    qs = draw(st.integers(0, 5))
    qlen = qs + qspan + draw(st.integers(0, 5))
    if qspan == 0:
        qlen += 1
    rec = {
        "name": name if name is not None else "read%d" % draw(st.integers(0, 999)),
        "qlen": qlen,
        "qs": qs,
        "qe": qs + qspan,
        "strand": "+",
        "steps": [list(s) for s in steps],
        "plen": total,
        "ps": ps,
        "pe": pe,
        "matches": matches,
        "block": block,
        "mapq": draw(st.sampled_from([0, 1, 30, 60, 60, 255])),
        "cg": cg if with_cigar else None,
        "tags": draw(plain_tags()) if tags else [],
        "cg_pos": 0,
    }
    if rec["cg"] is not None:
        rec["cg_pos"] = draw(st.integers(0, len(rec["tags"])))
    return rec


def record_line(rec, path=None, strand=None, plen=None, ps=None, pe=None, cg="same"):
    """Serialise a record dict (optionally with converted path columns)."""
    p = path if path is not None else "".join(o + n for o, n in rec["steps"])
    tags = list(rec["tags"])
    c = rec["cg"] if cg == "same" else cg
    if c is not None:
        tags.insert(rec.get("cg_pos", len(tags)), "cg:Z:" + c)
    cols = [
        rec["name"], rec["qlen"], rec["qs"], rec["qe"],
        strand if strand is not None else rec["strand"], p,
        plen if plen is not None else rec["plen"],
        ps if ps is not None else rec["ps"],
        pe if pe is not None else rec["pe"],
        rec["matches"], rec["block"], rec["mapq"],
    ]
    return "\t".join([str(x) for x in cols] + tags)
