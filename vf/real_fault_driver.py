"""Runs `gaftools realign` with real processes and one worker that dies at a chosen record (C13 real tier).
usage: real_fault_driver.py <repo> <workdir> <kind exc|exit|kill> <cores> <batch> <die_at_call>
Exit status = what the command did: 0 normal return, otherwise the SystemExit code / 70 for an exception."""
import os
import signal
import sys

repo, d, kind, cores, batch, die_at = sys.argv[1:7]
sys.path.insert(0, repo)
os.environ["GAFTOOLS_VERIF"] = "1"
os.environ["GAFTOOLS_VERIF_REALIGN_BATCH"] = batch
import logging  # noqa: E402

logging.disable(logging.CRITICAL)
import multiprocessing  # noqa: E402

import gaftools.cli.realign as R  # noqa: E402

parent = os.getpid()
marker = os.path.join(d, "fault.fired")
Real = R.WavefrontAligner
calls = [0]


class Faulty:
    def __init__(self, *a, **k):
        self._a = Real(*a, **k)

    def __call__(self, *a, **k):
        if os.getpid() != parent:
            calls[0] += 1
            if calls[0] == int(die_at):
                try:
                    fd = os.open(marker, os.O_CREAT | os.O_EXCL | os.O_WRONLY)
                    os.close(fd)
                    mine = True
                except FileExistsError:
                    mine = False
                if mine:
                    if kind == "exc":
                        raise MemoryError("injected")
                    if kind == "exit":
                        os._exit(3)
                    if kind == "term":
                        os.kill(os.getpid(), signal.SIGTERM)  # kill <pid>, a container stop, scancel ...
                        import time as _t

                        _t.sleep(5)
                    os.kill(os.getpid(), signal.SIGKILL)
        return self._a(*a, **k)

    def __getattr__(self, name):
        return getattr(self._a, name)


R.WavefrontAligner = Faulty
try:
    R.run_realign(os.path.join(d, "in.gaf"), os.path.join(d, "g.gfa"), os.path.join(d, "reads.fa"),
                  os.path.join(d, "out.gaf"), int(cores))
except SystemExit as e:
    code = e.code if isinstance(e.code, int) else 1
    os._exit(code if code else 0)
except BaseException:
    os._exit(70)
os._exit(0)
