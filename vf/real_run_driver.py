"""Runs `gaftools realign` with real processes under a lowered open-files limit (C11 real tier, many batches).
usage: real_run_driver.py <repo> <workdir> <cores> <batch> <nofile>; exit status 0 = normal return."""
import os
import resource
import sys

repo, d, cores, batch, nofile = sys.argv[1:6]
sys.path.insert(0, repo)
os.environ["GAFTOOLS_VERIF"] = "1"
os.environ["GAFTOOLS_VERIF_REALIGN_BATCH"] = batch  # 1000 = the production value
import logging  # noqa: E402

logging.disable(logging.CRITICAL)
import multiprocessing  # noqa: E402

import gaftools.cli.realign as R  # noqa: E402

soft, hard = resource.getrlimit(resource.RLIMIT_NOFILE)
resource.setrlimit(resource.RLIMIT_NOFILE, (int(nofile), hard))
try:
    R.run_realign(os.path.join(d, "in.gaf"), os.path.join(d, "g.gfa"), os.path.join(d, "reads.fa"),
                  os.path.join(d, "out.gaf"), int(cores))
except SystemExit as e:
    os._exit(e.code if isinstance(e.code, int) and e.code else 1)
except BaseException as e:  # noqa
    sys.stderr.write("%s: %s\n" % (type(e).__name__, e))
    os._exit(70)
os._exit(0)
