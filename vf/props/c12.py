"""C12 - realign emits a valid global alignment of read slice to path slice."""

import random

from hypothesis import strategies as st

from vf import core, fakemp, gen_gaf, gen_graph, models, realign_common as rc

ID = "C12"
LEVEL = "exploration"
LEVEL_TEXT = (
    "Generated-input search over sequence graphs, walks with forward and reverse steps and arbitrary offsets, and reads "
    "derived from the path slice by generated edit scripts (substitutions, short and long indels, two large indels far "
    "apart), with exact or fragmented input CIGARs; the real run_realign runs on the simulated platform (eager schedule) so "
    "the aligner's constructor arguments can be recorded, plus a real-process run per case class. Oracle: CIGAR replay against "
    "independently spelled sequences, column recomputation, gap-affine cost <= input CIGAR's, untouched columns/tags."
)
LEVEL_NOTE = "Trusts the speller and CIGAR replay in vf/models.py; cost is computed with the mismatch/gap-open/gap-extend values the code passed to the aligner (defaults 4/6/2)."
TECHNIQUE = "property-based testing (Hypothesis) with a CIGAR-replay oracle and a metamorphic cost bound (output cost <= cost of the generating edit script)"
RULE = (
    "Hypothesis-generated rGFA with sequences (segments 1-12 bp, or 60-300 bp in the 'long' class), 1-6 records over walks "
    "(1-5 steps, both orientations) with arbitrary ps<pe, read = path slice edited by a generated script (0-40% edits, long "
    "indels; 'long' class: two indels of 40-150 bp a few hundred bases apart) embedded at a drawn offset, input CIGAR = that "
    "script, optionally fragmented (=/X columns replaced by I+D pairs). Oracle: output CIGAR consumes read[qs:qe] and "
    "path[ps:pe] exactly, '=' columns equal, 'X' columns unequal, only =XID; col 10 = sum('='), col 11 = sum(all); "
    "affine cost <= input CIGAR's; columns 1-9, 12 and other optional fields unchanged in order; >60000 read bases: record "
    "unchanged. Non-trivial = a '<' step and an edit, or a fragmented input whose cost exceeds the output's, or the "
    "pass-through / long class. Distinct by SHA-1 of the case."
    " Later additions: shifted slices of 1-6 bases (optimum without '=' columns, exact cost ties), tagless "
    "records in one batch with a pass-through record, non-zero link overlaps, wrapped FASTA, soft-masked "
    "graph and read bases, realign to standard output."
)
ASSUMPTIONS = ["optimality is only claimed relative to the input CIGAR, as the property states"]


def budget(tier):
    if tier == "quick":
        return {"examples": 300, "shards": 2}
    return {"examples": 9000, "shards": 16}


@st.composite
def long_record(draw, g, lm, name, rnd):
    steps = draw(gen_gaf.walk(g, lm, max_len=4))
    full = models.spell_unstable(g["nodes"], steps)
    total = len(full)
    ps = draw(st.integers(0, min(20, total - 1)))
    pe = draw(st.integers(max(ps + 1, total - 20), total))
    ref = full[ps:pe]
    n = len(ref)
    ops = []
    seg = []
    if n > 330:
        k1 = draw(st.integers(40, 150))
        k2 = min(draw(st.integers(40, 150)), n - 300)
        gap = draw(st.integers(100, max(100, min(400, n - k2 - 110))))
        a = draw(st.integers(5, max(5, n - gap - k2 - 5)))
        first_ins = draw(st.booleans())
        # a: matches, indel 1, gap matches, indel 2, rest
        pos = 0
        seg.append(ref[:a])
        ops.append((a, "="))
        pos = a
        for which in ((0, 1) if first_ins else (1, 0)):
            if which == 0:
                seg.append("".join(rnd.choice("ACGT") for _ in range(k1)))
                ops.append((k1, "I"))
            else:
                ops.append((k2, "D"))
                pos += k2
            if which == ((0, 1) if first_ins else (1, 0))[0]:
                m = min(gap, n - pos - (k2 if first_ins else 0))
                m = max(m, 1)
                seg.append(ref[pos:pos + m])
                ops.append((m, "="))
                pos += m
        if pos < n:
            seg.append(ref[pos:])
            ops.append((n - pos, "="))
        segment = "".join(seg)
        ops = rc.merge_ops(ops)
    else:
        segment, ops = draw(rc.edit_script(ref, rnd))
    pre = "".join(rnd.choice("ACGT") for _ in range(draw(st.integers(0, 6))))
    read = pre + segment + "ACG"
    tags = ["NM:i:7", "cg:Z:" + rc.cigar_str(ops), "tp:A:P"]
    matches = sum(k for k, o in ops if o == "=")
    block = sum(k for k, o in ops)
    line = "\t".join([name, str(len(read)), str(len(pre)), str(len(pre) + len(segment)), "+", models.path_str(steps),
                      str(total), str(ps), str(pe), str(matches), str(block), "60"] + tags)
    return line, read


@st.composite
def strategy_(draw, tier):
    rnd = random.Random(draw(st.integers(0, 2**30)))
    long_class = draw(st.integers(0, 4)) == 0
    if long_class:
        g = draw(gen_graph.rgfa(max_chroms=1, max_elements=3, max_ln=300, cycles=True))
        for d in g["nodes"].values():
            if d["ln"] < 60:  # long class: stretch short segments
                pass
    else:
        g = draw(gen_graph.rgfa(max_chroms=1, max_elements=3, max_ln=12, cycles=True))
    for d in g["nodes"].values():
        d["seq"] = d["seq"].replace("N", "A")
    rc.soft_mask(draw, g)
    if draw(st.integers(0, 7)) == 0:
        # realign takes the path as a walk whatever the segments are called: a name may contain ':' and '-'
        # (only here: for view and index such a path is ambiguous with a stable interval by the GAF syntax itself)
        ids_ = sorted(g["nodes"])
        new_ = "ctg7:0-%d" % len(ids_)
        if new_ not in g["nodes"]:
            g = gen_graph.rename_nodes(g, {draw(st.sampled_from(ids_)): new_})
    lm = models.LinkModel(g["links"])
    closed = gen_gaf.revisit_walks(g, lm) if not long_class else []
    lines, fasta = [], []
    for i in range(draw(st.integers(1, 6))):
        name = "rd%d" % i
        comment = draw(st.sampled_from(["", "", " len=5 ch=2"]))
        if long_class:
            line, read = draw(long_record(g, lm, name, rnd))
        else:
            # walks that come back to a node (hairpins, inverted duplications) in about a third of the records
            prefix = draw(st.sampled_from(closed)) if (closed and draw(st.integers(0, 2)) == 0) else None
            line, read = draw(rc.realign_record(g, lm, name, rnd, comment=comment, prefix=prefix, max_len=3 if prefix else 5,
                                                # an input record need not carry a CIGAR: the realigned record always does
                                                with_cigar=draw(st.integers(0, 5)) > 0))
        lines.append(line)
        if not long_class and draw(st.integers(0, 3)) == 0:
            # a split alignment: the next record belongs to the same read, with another query interval
            line2, read2 = draw(rc.realign_record(g, lm, name, rnd, max_len=4))
            f2 = line2.split("\t")
            off = len(read) + 3
            f2[1] = str(off + int(f2[1]))
            f2[2] = str(off + int(f2[2]))
            f2[3] = str(off + int(f2[3]))
            f1 = lines[-1].split("\t")
            f1[1] = f2[1]
            lines[-1] = "\t".join(f1)
            lines.append("\t".join(f2))
            read = read + "TTT" + read2
        fasta.append(">%s\n%s\n" % (name, read))
    ov = draw(st.integers(0, 20))  # a third of the graphs declare non-zero link overlaps (carried, never interpreted)
    return {"gfa": gen_graph.gfa_text(g, with_seq=True, order_seed=draw(st.integers(0, 99)),
                                      overlap_seed=ov if ov < 7 else None), "gaf": lines,
            "fasta": rc.wrap_fasta("".join(fasta), draw(st.sampled_from([None, None, 60, 7, 3]))), "cores": draw(st.integers(1, 2)), "batch": draw(st.integers(1, 3)),
            "kind": "sim", "long": long_class, "via": draw(st.sampled_from(["api", "api", "cli", "cli_stdout"]))}


def strategy(tier):
    return strategy_(tier)


class Recorder:
    """Wraps WavefrontAligner to record the penalties the code constructs it with."""

    def __init__(self):
        self.kwargs = []

    def __call__(self, real):
        rec = self

        class Wrapped:
            def __init__(self, *a, **k):
                rec.kwargs.append(dict(k))
                self._a = real(*a, **k)

            def __call__(self, *a, **k):
                return self._a(*a, **k)

            def __getattr__(self, name):
                return getattr(self._a, name)

        return Wrapped


def replay(cigar, read, ref):
    """Returns None if the CIGAR is a valid end-to-end alignment of read vs ref, else a message."""
    try:
        ops = models.parse_cigar(cigar)
    except ValueError as e:
        return str(e)
    i = j = 0
    for n, op in ops:
        if n <= 0:
            return "zero-length run"
        if op == "=":
            if read[i:i + n] != ref[j:j + n] or len(read[i:i + n]) != n:
                return "'=' run at read %d / path %d pairs %r with %r" % (i, j, read[i:i + n], ref[j:j + n])
            i += n
            j += n
        elif op == "X":
            a, b = read[i:i + n], ref[j:j + n]
            if len(a) != n or len(b) != n or any(x == y for x, y in zip(a, b)):
                return "'X' run at read %d / path %d pairs %r with %r" % (i, j, a, b)
            i += n
            j += n
        elif op == "I":
            i += n
        elif op == "D":
            j += n
        else:
            return "operation %r" % op
    if i != len(read) or j != len(ref):
        return "consumes %d of %d read bases and %d of %d path bases" % (i, len(read), j, len(ref))
    return None


def run_case(case):
    nodes, _ = models.nodes_from_gfa_text(case["gfa"])
    reads = rc.parse_fasta(case["fasta"])
    rec = Recorder()
    with core.workdir() as d:
        if case.get("kind") == "real":
            res, text = rc.run_realign_subprocess(case, d, case["cores"], case["batch"])
            core.check(res[0] != "timeout", "real processes: realign did not terminate within %s s", res[1])
        else:
            res, text = rc.run_realign(case, d, platform=fakemp.Platform(fakemp.Chooser([])), sub="out.gaf", recorder=rec,
                                       via=case.get("via", "api"))
    core.check(res[0] == "ok", "realign failed: %s", res)
    core.check(text is not None and (text == "" or text.endswith("\n")), "realign output missing or truncated")
    out = text.split("\n")[:-1]
    core.check(len(out) == len(case["gaf"]), "%d input records, %d output records", len(case["gaf"]), len(out))
    pen = {"mismatch": 4, "gap_opening": 6, "gap_extension": 2}
    for k in rec.kwargs:
        for key in pen:
            if key in k:
                pen[key] = k[key]
    cl = set()
    nontrivial = False
    for inp, outl in zip(case["gaf"], out):
        fi, fo = inp.split("\t"), outl.split("\t")
        core.check(len(fo) >= 12, "output line with fewer than 12 columns: %r", outl)
        qname = fi[0].split(" ")[0]
        qs, qe, ps, pe = int(fi[2]), int(fi[3]), int(fi[7]), int(fi[8])
        want_head = [qname] + fi[1:9]
        core.check(fo[:9] == want_head, "columns 1-9 changed: %s -> %s", want_head, fo[:9])
        core.check(fo[11] == fi[11], "mapping quality changed: %s -> %s", fi[11], fo[11])
        had_cg = any(t.startswith("cg:Z:") for t in fi[12:])
        ti = models.masked_fields(fi[12:], drop=())
        to = models.masked_fields(fo[12:], keep_cg=had_cg, drop=())
        core.check(ti == to, "optional fields changed: %s -> %s", ti, to)
        cg_in = [t[5:] for t in fi[12:] if t.startswith("cg:Z:")]
        cg_out = [t[5:] for t in fo[12:] if t.startswith("cg:Z:")]
        if qe - qs > 60000:
            core.check(fo == [qname] + fi[1:], "alignment of more than 60000 read bases was not passed through unchanged")
            cl.add("pass_through>60000")
            nontrivial = True
            continue
        core.check(len(cg_out) == 1, "output record has %d cg tags", len(cg_out))
        steps = models.parse_path(fi[5])
        ref = models.spell_unstable(nodes, steps)[ps:pe]
        read = reads[qname][qs:qe]
        err = replay(cg_out[0], read, ref)
        core.check(err is None, "output CIGAR %s of %s is not a valid alignment of read[%d:%d]=%s against path[%d:%d]=%s: %s",
                   cg_out[0][:80], qname, qs, qe, read[:60], ps, pe, ref[:60], err)
        ops = models.parse_cigar(cg_out[0])
        m = sum(n for n, o in ops if o == "=")
        b = sum(n for n, o in ops)
        core.check(fo[9] == str(m), "match column %s but the CIGAR has %d '=' bases", fo[9], m)
        core.check(fo[10] == str(b), "block length column %s but the CIGAR spans %d columns", fo[10], b)
        cost_out = models.gap_affine_cost(ops, pen["mismatch"], pen["gap_opening"], pen["gap_extension"])
        if cg_in:
            ops_in = models.parse_cigar(cg_in[0])
            assert replay(cg_in[0], read, ref) is None, "generator produced an invalid input CIGAR"
            cost_in = models.gap_affine_cost(ops_in, pen["mismatch"], pen["gap_opening"], pen["gap_extension"])
            core.check(cost_out <= cost_in, "output CIGAR %s costs %d, the input CIGAR %s costs only %d (penalties %s)",
                       cg_out[0][:80], cost_out, cg_in[0][:80], cost_in, pen)
            if cost_out < cost_in:
                cl.add("output_cheaper_than_input")
                nontrivial = True
        has_rev = any(o == "<" for o, _ in steps)
        edits = any(o != "=" for _, o in ops)
        if not cg_in:
            cl.add("input_without_cigar")
        if has_rev:
            cl.add("reverse_step")
        if steps[0][0] == "<" and ps > 0:
            cl.add("first_node_reverse_partially_covered")
        if steps[-1][0] == "<" and pe < len(models.spell_unstable(nodes, steps)):
            cl.add("last_node_reverse_partially_covered")
        if edits:
            cl.add("edits")
        seen_o = {}
        for o_, n_ in steps:
            seen_o.setdefault(n_, set()).add(o_)
        if any(len(v) == 2 for v in seen_o.values()):
            cl.add("node_visited_in_both_orientations")
        if any(n >= 40 and o in "ID" for n, o in ops):
            cl.add("indel>=40")
        if has_rev and edits:
            nontrivial = True
    if case.get("long"):
        cl.add("long_class")
    names_ = [l.split("\t")[0].split(" ")[0] for l in case["gaf"]]
    if any(a == b for a, b in zip(names_, names_[1:])):
        cl.add("consecutive_records_of_one_read")
    if case.get("kind") == "real":
        cl.add("real_processes")
    if any(len(l) in (3, 7, 60) for l in case["fasta"].split("\n")[:-1]) and "\n".join(case["fasta"].split("\n")[1:3]).count(">") == 0:
        cl.add("wrapped_fasta")
    if any(r != r.upper() for r in reads.values()):
        cl.add("lower_case_read_bases")
    if any(l.startswith("L\t") and l.split("\t")[5] != "0M" for l in case["gfa"].split("\n")):
        cl.add("links_with_nonzero_overlap")
    return core.Result(nontrivial, sorted(cl))


def enumerations(tier, shard, nshards):
    if shard != 0:
        return

    def gen():
        rnd = random.Random(12)
        big = "".join(rnd.choice("ACGT") for _ in range(60001))
        gfa = "S\ts1\t%s\tLN:i:60001\tSN:Z:chr1\tSO:i:0\tSR:i:0\nS\ts2\tACGTAC\tLN:i:6\tSN:Z:chr1\tSO:i:60001\tSR:i:0\nL\ts1\t+\ts2\t+\t0M\n" % big
        # exactly 60000 read bases: must be realigned; 60001: must pass through unchanged
        gaf = [
            "edge\t60010\t3\t60003\t+\t>s1>s2\t60007\t1\t60001\t59990\t60000\t60\tNM:i:3\tcg:Z:60000=\ttp:A:P",
            "over\t60010\t3\t60004\t+\t>s1>s2\t60007\t1\t60002\t12\t99\t7\tNM:i:3\tcg:Z:3=5X60=\tzz:Z:abc",
        ]
        fasta = ">edge\nAAA%sTTTTTTTTT\n>over\nAAA%sTTTTTTTTT\n" % (big[1:60001], big[1:60001] + "A")
        for kind in ("sim", "real"):
            yield {"gfa": gfa, "gaf": gaf, "fasta": fasta, "cores": 1, "batch": 1, "kind": kind}
        # read slice and path slice on different sides of the limit: 60 200 read bases against 59 990 path bases must
        # pass through unchanged (non-canonical CIGAR kept); 59 990 read bases against 60 000 path bases is realigned
        ins = "".join(rnd.choice("ACGT") for _ in range(210))
        gaf2 = [
            "longread\t60210\t5\t60205\t+\t>s1>s2\t60007\t1\t59991\t59990\t60200\t60\tcg:Z:30000=100I110I29990=\tNM:i:210",
            "longpath\t60000\t5\t59995\t+\t>s1>s2\t60007\t1\t60001\t59990\t60000\t60\tcg:Z:30000=10D29990=",
        ]
        fasta2 = ">longread\nAAAAA%s%s%sTTTTT\n>longpath\nAAAAA%s%sTTTTT\n" % (
            big[1:30001], ins, big[30001:59991], big[1:30001], big[30011:60001])
        yield {"gfa": gfa, "gaf": gaf2, "fasta": fasta2, "cores": 1, "batch": 1, "kind": "sim"}
        # records without any optional field: a realigned one followed, in the same batch, by one that is passed through
        gaf3 = [
            "t1\t60010\t3\t13\t+\t>s1\t60001\t1\t11\t10\t10\t60",
            "over\t60010\t3\t60004\t+\t>s1>s2\t60007\t1\t60002\t12\t99\t7",
            "t2\t60010\t3\t13\t+\t>s1\t60001\t1\t11\t10\t10\t60",
        ]
        fasta3 = ">t1\nAAA%sTTT\n>t2\nAAA%sTTT\n>over\nAAA%sTTTTTTTTT\n" % (big[1:11], big[1:11], big[1:60001] + "A")
        for batch in (3, 1):
            yield {"gfa": gfa, "gaf": gaf3, "fasta": fasta3, "cores": 1, "batch": batch, "kind": "sim"}
        # a pass-through record that carries optional fields but no CIGAR: it stays without one
        gaf4 = ["over\t60010\t3\t60004\t+\t>s1>s2\t60007\t1\t60002\t12\t99\t7\tNM:i:3\tzz:Z:abc",
                "t1\t60010\t3\t13\t+\t>s1\t60001\t1\t11\t10\t10\t60\tNM:i:0"]
        yield {"gfa": gfa, "gaf": gaf4, "fasta": fasta3, "cores": 1, "batch": 2, "kind": "sim"}
        # a small real-process case with reverse steps
        yield {"gfa": "S\ta\tACGTTGCA\tLN:i:8\tSN:Z:chr1\tSO:i:0\tSR:i:0\nS\tb\tGGATC\tLN:i:5\tSN:Z:chr1\tSO:i:8\tSR:i:0\nL\ta\t+\tb\t+\t0M\n",
               "gaf": ["r1\t9\t1\t8\t+\t<b<a\t13\t2\t9\t7\t7\t60\tcg:Z:7="], "fasta": ">r1\nTTCCTGCAA\n", "cores": 2, "batch": 1,
               "kind": "real"}

    def verylong():
        # 12 000-20 000 read bases with six indels of 100-200 bp: only such inputs separate exact from heuristic alignment
        for seed in (1, 2):
            rnd = random.Random(100 + seed)
            n = 12000 + 4000 * seed
            ref = "".join(rnd.choice("ACGT") for _ in range(n))
            gfa = "S\tv1\t%s\tLN:i:%d\tSN:Z:chr1\tSO:i:0\tSR:i:0\n" % (ref, n)
            pos = 50
            seg, ops = [], []
            step = (n - 400) // 7
            for k in range(6):
                m = step - rnd.randint(0, 50)
                seg.append(ref[pos:pos + m])
                ops.append((m, "="))
                pos += m
                ln = rnd.randint(100, 200)
                if k % 2 == 0:
                    seg.append("".join(rnd.choice("ACGT") for _ in range(ln)))
                    ops.append((ln, "I"))
                else:
                    ops.append((ln, "D"))
                    pos += ln
            seg.append(ref[pos:n - 20])
            ops.append((n - 20 - pos, "="))
            segment = "".join(seg)
            cg = rc.cigar_str(rc.merge_ops(ops))
            line = "vl%d\t%d\t3\t%d\t+\t>v1\t%d\t50\t%d\t%d\t%d\t60\tcg:Z:%s" % (
                seed, len(segment) + 6, 3 + len(segment), n, n - 20, sum(k for k, o in ops if o == "="), sum(k for k, o in ops), cg)
            yield {"gfa": gfa, "gaf": [line], "fasta": ">vl%d\nAAA%sTTT\n" % (seed, segment), "cores": 1, "batch": 1, "kind": "sim"}

    def shifted():
        # read slice = one foreign base + the path slice without its last base, given as 1I(n-1)=1D (cost 16): for n <= 3 the
        # optimum is n mismatches (no '=' column at all), for n = 4 the two alignments tie, for n >= 5 the input is optimal;
        # plus the same pairs given as all-insertion/all-deletion (no matches in the input)
        rnd = random.Random(77)
        seqs = []
        for n in (1, 2, 3, 4, 5, 6):
            for _ in range(6):
                p = [rnd.choice("ACGT")]
                while len(p) < n:
                    p.append(rnd.choice([b for b in "ACGT" if b != p[-1]]))  # no two adjacent bases equal
                seqs.append("".join(p))
        for rev in (False, True):
            node = "GG" + "TT".join(seqs) + "CC"
            gfa = "S\tv1\t%s\tLN:i:%d\tSN:Z:chr1\tSO:i:0\tSR:i:0\n" % (node, len(node))
            gaf, fa = [], []
            pos = 2
            for k, p in enumerate(seqs):
                n = len(p)
                first = rnd.choice([b for b in "ACGT" if b != p[0]])
                want = first + p[:-1]        # read slice in path orientation
                ps, pe = pos, pos + n
                pos += n + 2
                if rev:
                    # the same locus seen through <v1: path offsets count from the other end, bases are complemented
                    total = len(node)
                    ps, pe = total - pe, total - ps
                    target = models.revcomp(p)
                    first_r = rnd.choice([b for b in "ACGT" if b != target[0]])
                    want = first_r + target[:-1]
                for style in ("shift", "indel"):
                    name = "sh%d%s%s" % (k, style[0], "r" if rev else "f")
                    cg = ("1I%s1D" % ("%d=" % (n - 1) if n > 1 else "")) if style == "shift" else "%dI%dD" % (n, n)
                    m = n - 1 if style == "shift" else 0
                    gaf.append("%s\t%d\t1\t%d\t+\t%sv1\t%d\t%d\t%d\t%d\t%d\t60\tcg:Z:%s" % (
                        name, n + 2, n + 1, "<" if rev else ">", len(node), ps, pe, m, n + 1 if style == "shift" else 2 * n, cg))
                    fa.append(">%s\nA%sA\n" % (name, want))
            yield {"gfa": gfa, "gaf": gaf, "fasta": "".join(fa), "cores": 1, "batch": 50, "kind": "sim"}

    yield ("shifted slices of 1-6 bases (optimum without any '=' column, exact cost ties, input already optimal), forward and reverse",
           shifted(), True)

    def flanks():
        # the read slice lacks the first k or the last k bases of the path slice: the optimal alignment starts / ends with a deletion
        rnd = random.Random(91)
        node = "".join(rnd.choice("ACGT") for _ in range(400))
        gfa = "S\tw1\t%s\tLN:i:400\tSN:Z:chr1\tSO:i:0\tSR:i:0\n" % node
        gaf, fa = [], []
        for i, (a, b, k, side) in enumerate([(10, 70, 3, "head"), (100, 190, 9, "tail"), (200, 230, 1, "head"), (250, 330, 12, "tail"),
                                              (340, 390, 5, "both")]):
            ref = node[a:b]
            if side == "head":
                read, cg = ref[k:], "%dD%d=" % (k, len(ref) - k)
            elif side == "tail":
                read, cg = ref[:-k], "%d=%dD" % (len(ref) - k, k)
            else:
                read, cg = ref[k:-k], "%dD%d=%dD" % (k, len(ref) - 2 * k, k)
            nm = "fl%d" % i
            m_ = len(read)
            gaf.append("%s\t%d\t2\t%d\t+\t>w1\t400\t%d\t%d\t%d\t%d\t60\tcg:Z:%s" % (nm, m_ + 4, m_ + 2, a, b, m_, len(ref), cg))
            fa.append(">%s\nGG%sCC\n" % (nm, read))
        yield {"gfa": gfa, "gaf": gaf, "fasta": "".join(fa), "cores": 1, "batch": 10, "kind": "sim"}

    yield ("read slices that lack the first or last bases of the path slice (alignment begins or ends with a deletion)", flanks(), True)

    def blocks():
        # a block substitution (30 x A replaced by 30 x C): 30 mismatch columns cost 120, any pair of long gaps costs more under
        # the 4/6/2 penalties; and a tandem duplication: two records of one read over the SAME path interval, each with its own
        # read interval
        rnd = random.Random(33)
        left = "".join(rnd.choice("ACGT") for _ in range(80))
        right = "".join(rnd.choice("ACGT") for _ in range(90))
        node = left + "A" * 30 + right
        gfa = "S\tz1\t%s\tLN:i:%d\tSN:Z:chr1\tSO:i:0\tSR:i:0\n" % (node, len(node))
        read = left + "C" * 30 + right
        n = len(node)
        gaf = ["blk\t%d\t0\t%d\t+\t>z1\t%d\t0\t%d\t%d\t%d\t60\tcg:Z:80=30X90=" % (n, n, n, n, n - 30, n),
               "blkr\t%d\t0\t%d\t+\t<z1\t%d\t0\t%d\t%d\t%d\t60\tcg:Z:90=30X80=" % (n, n, n, n, n - 30, n)]
        fa = ">blk\n%s\n>blkr\n%s\n" % (read, models.revcomp(read))
        copy1 = node[20:70]
        copy2 = copy1[:25] + ("G" if copy1[25] != "G" else "T") + copy1[26:]
        dup = "TT" + copy1 + copy2 + "AA"
        gaf += ["dup\t%d\t2\t52\t+\t>z1\t%d\t20\t70\t50\t50\t60\tcg:Z:50=" % (len(dup), n),
                "dup\t%d\t52\t102\t+\t>z1\t%d\t20\t70\t49\t50\t60\tcg:Z:25=1X24=" % (len(dup), n)]
        fa += ">dup\n%s\n" % dup
        for batch in (10, 1):
            yield {"gfa": gfa, "gaf": gaf, "fasta": fa, "cores": 1, "batch": batch, "kind": "sim"}

    yield ("a 30-base block substitution (forward and reverse) and a tandem duplication (one read, one path interval, two read intervals)",
           blocks(), True)

    yield ("reads of 16 000 and 20 000 bases with six indels of 100-200 bp", verylong(), True)

    yield ("60000 / 60001 read-base boundary of the pass-through rule (simulated and real processes) + one real-process reverse-walk case", gen(), True)
