"""C20 - phase annotates every record without altering it."""

import re

from hypothesis import strategies as st

from vf import bgzf, core, gen_gaf, models

ID = "C20"
LEVEL = "exploration"
LEVEL_TEXT = (
    "Generated-input search over GAFs (both strands, unstable / stable-interval / bare-contig paths, plain optional fields, "
    "with and without cg:Z, several records per read, plain or BGZF) and haplotag TSVs (reads H1/H2 with phase set and "
    "contig, 'none', missing, listed twice, the same phase-set id on different contigs); oracle = column/field equality with "
    "the input plus an independent TSV lookup for ps:Z / ht:Z."
)
LEVEL_NOTE = "Conflicting duplicate TSV rows are not generated (undefined by the statement). A missing final newline is accepted."
TECHNIQUE = "property-based testing (Hypothesis) with a field-equality oracle and an independent haplotag lookup"
RULE = (
    "Hypothesis-generated GAF of 1-12 records over 1-6 read names (a read may have several records), both strands, three path "
    "syntaxes, plain tags with cg:Z at any position or absent, plain or BGZF; TSV with header, H1/H2/none rows, rows repeated "
    "identically, phase-set ids shared between contigs, some reads missing. Oracle: one well-formed line per input record in "
    "order; 12 columns equal the input's (name cut at first space); optional fields other than ps/ht equal the input's in "
    "order; exactly one new ps:Z and one new ht:Z ('<contig>-<phaseset>' and the haplotype for phased reads, none/none otherwise), also "
    "when the input already carries ps/ht fields from an earlier run. "
    "Non-trivial = file with a '-' strand record, a phased, an unphased and a missing read. Distinct by SHA-1 of the case."
    " Later additions: read names with quotes, slashes, '#', non-ASCII letters; reads absent from the table "
    "whose names extend a listed name; tables without the header line; conflicting listings of a read (any "
    "one listing accepted, never a mixture)."
)
ASSUMPTIONS = ["reads listed several times in the TSV are listed identically"]


def budget(tier):
    if tier == "quick":
        return {"examples": 800, "shards": 2}
    return {"examples": 8000, "shards": 16}


@st.composite
def gaf_record(draw, name):
    kind = draw(st.sampled_from(["unstable", "stable", "bare"]))
    strand = "+"
    if kind == "unstable":
        n = draw(st.integers(1, 4))
        path = "".join(draw(st.sampled_from("><")) + "s%d" % draw(st.integers(1, 40)) for _ in range(n))
    elif kind == "stable":
        path = "".join("%s%s:%d-%d" % (draw(st.sampled_from("><")), draw(st.sampled_from(["chr1", "HG002#1#ctg.7"])),
                                       a, a + draw(st.integers(1, 50)))
                       for a in draw(st.lists(st.integers(0, 500), min_size=1, max_size=3)))
    else:
        path = draw(st.sampled_from(["chr1", "chr2"]))
        strand = draw(st.sampled_from("+-"))
    plen = draw(st.integers(10, 900))
    ps = draw(st.integers(0, plen - 2))
    pe = draw(st.integers(ps + 1, plen))
    cg, qspan, matches, block = draw(gen_gaf.cigar_for(pe - ps))
    qs = draw(st.integers(0, 9))
    tags = draw(gen_gaf.plain_tags())
    if draw(st.integers(0, 3)) == 0:
        tags.insert(draw(st.integers(0, len(tags))), draw(st.sampled_from(
            ["rg:Z:chr1:1000-2000", "dt:Z:2024-01-01T10:20:30", "xs:i:-5", "sr:Z:a:b", "fl:f:-1.5e-3", "co:Z:identity 100%",
             "pc:Z:50%%off %s %d"])))
    if draw(st.integers(0, 4)) > 0:
        tags.insert(draw(st.integers(0, len(tags))), "cg:Z:" + cg)
    if draw(st.integers(0, 5)) == 0:
        # the output of an earlier phase run: the record already carries ps/ht fields
        old = draw(st.sampled_from([("ps:Z:none", "ht:Z:none"), ("ps:Z:chr1-10492", "ht:Z:H2"), ("ps:Z:chrX-5", "ht:Z:H1")]))
        k = draw(st.integers(0, len(tags)))
        tags[k:k] = list(old)
    return "\t".join([name, str(qs + qspan + 3), str(qs), str(qs + qspan), strand, path, str(plen), str(ps), str(pe),
                      str(matches), str(block), str(draw(st.sampled_from([0, 1, 60, 255])))] + tags)


@st.composite
def strategy_(draw, tier):
    nreads = draw(st.integers(1, 6))
    # read names are arbitrary strings without blanks: quotes, slashes, '#', letters outside ASCII (the files are UTF-8)
    style = draw(st.sampled_from(["read%d"] * 4 + ['"HG002"/%d/ccs', "se\u00f1al_%d", "m64_%d#1/ccs", "'r%d", '"r%d']))
    reads = [style % i for i in range(nreads)]
    lines = []
    for _ in range(draw(st.integers(1, 12))):
        r = draw(st.sampled_from(reads))
        comment = draw(st.sampled_from(["", "", " ch=3 x"]))
        lines.append(draw(gaf_record(r + comment)))
    tsv = ["#readname\thaplotype\tphaseset\tchromosome"]
    for r in reads:
        status = draw(st.sampled_from(["H1", "H2", "none", "missing"]))
        if status == "missing":
            continue
        contig = draw(st.sampled_from(["chr1", "chr2", "chrX"]))
        if status == "none":
            row = "%s\tnone\tnone\t%s" % (r, contig)
        else:
            row = "%s\t%s\t%d\t%s" % (r, status, draw(st.sampled_from([10492, 10492, 77, 123456])), contig)
        tsv.append(row)
        if draw(st.integers(0, 4)) == 0:
            tsv.append(row)
        elif draw(st.integers(0, 9)) == 0:
            # the same read listed again with other values: the statement does not say which listing counts,
            # the oracle accepts the values of any ONE listing (never a mixture)
            tsv.append("%s\t%s\t%d\t%s" % (r, draw(st.sampled_from(["H1", "H2"])), draw(st.sampled_from([5, 909])), contig))
    listed = [row.split("\t")[0] for row in tsv[1:]]
    if listed and draw(st.integers(0, 3)) == 0:
        # a read that is NOT in the TSV but whose name extends or truncates the name of one that is (mates /1 and /2,
        # sub-reads): it is a different read and gets 'none'
        base = draw(st.sampled_from(listed))
        other = draw(st.sampled_from([base + "/1", base + "/2", base + ".1", base + "_2", base + "x", base[:-1]]))
        if other and other not in listed and other not in reads:
            for _ in range(draw(st.integers(1, 2))):
                lines.insert(draw(st.integers(0, len(lines))), draw(gaf_record(other)))
    hdr = tsv[0]
    body = [tsv[1 + i] for i in draw(st.permutations(range(len(tsv) - 1)))]
    comp = None
    if draw(st.booleans()):
        size = sum(len(l) + 1 for l in lines)
        comp = {"cuts": sorted(set(draw(st.lists(st.integers(1, max(1, size - 1)), max_size=3)))), "empty": False}
    # whatshap writes a '#readname ...' header line; a table without it (cut, filtered, concatenated) is the same table
    head_ = [hdr] if draw(st.integers(0, 3)) else []
    return {"gaf": lines, "tsv": "".join(r_ + "\n" for r_ in head_ + body), "bgzf": comp,
            "via": draw(st.sampled_from(["api", "api", "cli", "cli_stdout"]))}


def strategy(tier):
    return strategy_(tier)


FIELD = re.compile(r"^[A-Za-z][A-Za-z0-9]:[AifZHB]:[ -~]*$")


def run_case(case):
    from gaftools.cli import phase

    lines = case["gaf"]
    table = {}
    for row in case["tsv"].split("\n"):
        if row and not row.startswith("#readname\t"):
            f = row.split("\t")
            table.setdefault(f[0], []).append((f[1], f[2], f[3]))
    with core.workdir() as d:
        data = "".join(l + "\n" for l in lines).encode()
        if case.get("bgzf"):
            gaf = d + "/in.gaf.gz"
            bgzf.write_bgzf(gaf, data, case["bgzf"]["cuts"], case["bgzf"]["empty"])
        else:
            gaf = d + "/in.gaf"
            with open(gaf, "wb") as f:
                f.write(data)
        core.write_text(d + "/h.tsv", case["tsv"])
        via = case.get("via", "api")
        if via == "api":
            res = core.call(phase.run, gaf, d + "/h.tsv", d + "/out.gaf")
        elif via == "cli" and len(lines) % 2 == 0:
            # run from inside the data directory, all paths relative, -o a bare file name
            import os

            cwd = os.getcwd()
            os.chdir(d)
            try:
                res = core.cli(["phase", os.path.basename(gaf), "h.tsv", "-o", "out.gaf"])
            finally:
                os.chdir(cwd)
            cl_rel = True
        elif via == "cli":
            res = core.cli(["phase", gaf, d + "/h.tsv", "-o", d + "/out.gaf"])
        else:  # documented default: standard output
            res = core.cli(["phase", gaf, d + "/h.tsv"], capture_stdout=True)
        core.check(res[0] == "ok", "phase failed: %s", res)
        text = res[1] if via == "cli_stdout" else core.read_output(d + "/out.gaf", "phase")
    out = text.split("\n")
    if out and out[-1] == "":
        out = out[:-1]
    core.check(len(out) == len(lines), "%d input records, %d output lines", len(lines), len(out))
    cl = {"via:" + case.get("via", "api")}
    kinds = set()
    for a, b in zip(lines, out):
        fa, fb = a.split("\t"), b.split("\t")
        core.check(len(fb) >= 14, "output line has %d columns: %r", len(fb), b)
        core.check(all(x != "" for x in fb), "output line has an empty column: %r", b)
        name = fa[0].split(" ")[0]
        want12 = [name] + fa[1:12]
        core.check(fb[:12] == want12, "mandatory columns changed: %s -> %s", want12, fb[:12])
        for t in fb[12:]:
            core.check(FIELD.match(t) is not None, "malformed optional field %r in %r", t, b)
        ents = table.get(name)
        wants = []
        if ents is None:
            wants = [("ps:Z:none", "ht:Z:none")]
            kinds.add("missing")
        else:
            for ent in ents:
                if ent[0] == "none":
                    w_ = ("ps:Z:none", "ht:Z:none")
                    kinds.add("unphased")
                else:
                    w_ = ("ps:Z:%s-%s" % (ent[2], ent[1]), "ht:Z:%s" % ent[0])
                    kinds.add("phased")
                if w_ not in wants:
                    wants.append(w_)
            if len(wants) > 1:
                cl.add("read_listed_with_different_values")
        # the record GAINS one ps and one ht field with the TSV's values (of one listing); everything else is the input's
        rest = None
        for want in wants:
            r_ = list(fb[12:])
            if all(w in r_ for w in want):
                for w in want:
                    r_.remove(w)
                if rest is None or r_ == fa[12:]:
                    rest = r_
        core.check(rest is not None, "read %s: the output fields %s carry none of the listings of the haplotag TSV %s", name, fb[12:], wants)
        core.check(rest == fa[12:], "optional fields besides the new ps/ht changed: %s -> %s", fa[12:], rest)
        n_in = sum(1 for t in fa[12:] if t.startswith("ps:") or t.startswith("ht:"))
        n_out = sum(1 for t in fb[12:] if t.startswith("ps:") or t.startswith("ht:"))
        core.check(n_out == n_in + 2, "expected exactly one new ps and one new ht field: %s", fb[12:])
        if n_in:
            cl.add("input_already_has_ps_ht")
        if fa[4] == "-":
            cl.add("minus_strand")
        if not any(t.startswith("cg:Z:") for t in fa[12:]):
            cl.add("no_cigar")
    names = [l.split("\t")[0].split(" ")[0] for l in lines]
    if len(set(names)) < len(names):
        cl.add("read_with_several_records")
    pss = {}
    for k, vs in table.items():
        for v in vs:
            if v[0] != "none":
                pss.setdefault(v[1], set()).add(v[2])
    if any(len(v) > 1 for v in pss.values()):
        cl.add("phase_set_id_on_two_contigs")
    if case.get("bgzf"):
        cl.add("bgzf")
    cl |= kinds
    nontrivial = "minus_strand" in cl and {"phased", "unphased", "missing"} <= kinds
    return core.Result(nontrivial, sorted(cl))
