"""C14 - path sequences are spelled correctly and only for real walks."""

import itertools

from hypothesis import strategies as st

from vf import core, gen_graph, models

ID = "C14"
LEVEL = "exploration"
LEVEL_TEXT = (
    "Generated-input search over small GFAs with sequences (all four link orientation combinations, self-links, links "
    "declared from either end) and step sequences (random walks and their one-step mutations, reversed paths), "
    "checked against an independent link model; plus complete enumeration of the orientation table on a 2-node graph "
    "and on self-links. Exploration fits: the oracle (walk <=> spelled, non-walk <=> empty) is exact and cheap."
)
LEVEL_NOTE = "Trusts the independent link model in vf/models.py (L a oa b ob permits (a,oa)->(b,ob) and (b,!ob)->(a,!oa))."
TECHNIQUE = "property-based testing (Hypothesis) against an independent link model + exhaustive orientation-table enumeration"
RULE = (
    "Hypothesis-generated GFA text (1-7 segments with real sequences, 0-12 links in all orientation combinations incl. "
    "self-links and both-end declarations) and 1-8 paths of 1-7 oriented steps: random walks on the link model, mutated "
    "(one orientation flipped / one node replaced / one step reversed) and reversed; run GFA.extract_path and "
    "find_path.run (literal path, file of paths, --fasta on/off, -o). Oracle: concatenation with reverse complement for '<' "
    "iff every consecutive step pair is a link, else empty; reversed path accepted iff the path is and spells the reverse "
    "complement; one output record per path in order. Non-trivial = case has a walk and a non-walk path of >=2 steps; "
    "distinct by SHA-1 of the case."
    " Later additions: walks of 1 500 and 3 001 steps, a link added through the library turning a non-walk "
    "into a walk."
)
ASSUMPTIONS = ["steps naming nodes absent from the graph are outside the quantifier ('over its nodes')"]


def budget(tier):
    if tier == "quick":
        return {"examples": 700, "shards": 2}
    return {"examples": 12000, "shards": 16}


@st.composite
def path_steps(draw, g, lm, ids):
    kind = draw(st.sampled_from(["walk", "walk", "mut", "random"]))
    if kind == "random":
        n = draw(st.integers(1, 5))
        return [(draw(st.sampled_from("><")), draw(st.sampled_from(ids))) for _ in range(n)]
    n = draw(st.sampled_from(ids))
    o = draw(st.sampled_from("+-"))
    steps = [(">" if o == "+" else "<", n)]
    want = draw(st.integers(1, 7))
    while len(steps) < want:
        nxt = lm.steps(n, o)
        if not nxt:
            break
        n, o = draw(st.sampled_from(nxt))
        steps.append((">" if o == "+" else "<", n))
    if kind == "mut" and steps:
        i = draw(st.integers(0, len(steps) - 1))
        how = draw(st.sampled_from(["flip", "replace", "swap"]))
        o_, n_ = steps[i]
        if how == "flip":
            steps[i] = ("<" if o_ == ">" else ">", n_)
        elif how == "replace":
            steps[i] = (o_, draw(st.sampled_from(ids)))
        elif len(steps) > 1:
            j = (i + 1) % len(steps)
            steps[i], steps[j] = steps[j], steps[i]
    return steps


@st.composite
def strategy_(draw, tier):
    g = draw(gen_graph.raw_gfa(max_nodes=7, max_links=12, seq_mode="seq", soft_masked=True,
                               id_pool=["a", "b", "c", "s1", "s2", "s10", "n3", "0", "x_y"]))
    ids = [s[0] for s in g["segments"]]
    lm = models.LinkModel([l[:4] for l in g["links"]])
    paths = []
    for _ in range(draw(st.integers(1, 8))):
        steps = draw(path_steps(g, lm, ids))
        paths.append(models.path_str(steps))
    if len(paths) >= 2 and draw(st.integers(0, 2)) == 0:
        paths.insert(draw(st.integers(0, len(paths))), paths[draw(st.integers(0, len(paths) - 1))])
    return {"gfa": g["text"], "paths": paths, "fasta": draw(st.booleans()),
            "via": draw(st.sampled_from(["api", "api", "cli", "cli_stdout"]))}


def strategy(tier):
    return strategy_(tier)


def expected_seq(segs, lm, steps):
    if not lm.is_walk(steps):
        return ""
    return "".join(segs[n][0] if o == ">" else models.revcomp(segs[n][0]) for o, n in steps)


def reverse_steps(steps):
    return [("<" if o == ">" else ">", n) for o, n in reversed(steps)]


def run_case(case):
    from gaftools.cli import find_path
    from gaftools.gfa import GFA

    segs, _, links, _ = models.parse_gfa_text(case["gfa"])
    lm = models.LinkModel([l[0] for l in links])
    paths = case["paths"]
    exp = []
    classes = set()
    with core.workdir() as d:
        core.write_text(d + "/g.gfa", case["gfa"])
        r = core.call(GFA, d + "/g.gfa")
        core.check(r[0] == "ok", "loading the GFA failed: %s", r)
        graph = r[1]
        for p in paths:
            steps = models.parse_path(p)
            e = expected_seq(segs, lm, steps)
            exp.append(e)
            r = core.call(graph.extract_path, p)
            core.check(r[0] == "ok", "extract_path(%s) failed: %s", p, r)
            core.check(r[1] == e, "extract_path(%s) = %r, link model gives %r", p, r[1], e)
            # reversed walk
            rp = models.path_str(reverse_steps(steps))
            r2 = core.call(graph.extract_path, rp)
            core.check(r2[0] == "ok", "extract_path(%s) failed: %s", rp, r2)
            core.check((r2[1] == "") == (e == ""),
                       "path %s %s but its reverse %s %s", p, "accepted" if e else "rejected", rp,
                       "accepted" if r2[1] else "rejected")
            core.check(r2[1] == models.revcomp(e), "reverse path %s spells %r, expected reverse complement %r",
                       rp, r2[1], models.revcomp(e))
            if len(steps) >= 2:
                classes.add("walk>=2" if e else "nonwalk>=2")
                if e and any(o == "<" and segs[n][0] != segs[n][0].upper() for o, n in steps):
                    classes.add("soft_masked_node_reversed")
                for (o1, n1), (o2, n2) in zip(steps, steps[1:]):
                    if n1 == n2:
                        classes.add("selfstep")
                    if e:
                        classes.add("step" + o1 + o2)
        # a link added through the library afterwards: the path that was not a walk a moment ago is one now
        for p in paths:
            steps = models.parse_path(p)
            if len(steps) == 2 and not lm.is_walk(steps) and all(n in segs for _, n in steps):
                (o1, n1), (o2, n2) = steps
                r = core.call(graph.add_edge, n1, "+" if o1 == ">" else "-", n2, "+" if o2 == ">" else "-", 0)
                core.check(r[0] == "ok", "add_edge failed: %s", r)
                want = "".join(segs[n][0] if o == ">" else models.revcomp(segs[n][0]) for o, n in steps)
                r = core.call(graph.extract_path, p)
                core.check(r[0] == "ok" and r[1] == want, "after add_edge(%s) extract_path(%s) = %r, expected %r", p, p, r, want)
                classes.add("path_becomes_walk_after_add_edge")
                break
        # find_path on a file of paths (API call, command line with -o, or command line to standard output)
        via = case.get("via", "api")
        classes.add("via:" + via)
        core.write_text(d + "/paths.txt", "".join(p + "\n" for p in paths))

        def run_fp(arg, out_path, fasta):
            if via == "api":
                r = core.call(find_path.run, d + "/g.gfa", arg, output=out_path, fasta=fasta)
                return r, (core.read_output(out_path, "find_path") if r[0] == "ok" else None)
            argv = ["find_path", d + "/g.gfa", arg] + (["-f"] if fasta else [])
            if via == "cli":
                r = core.cli(argv + ["-o", out_path])
                return r, (core.read_output(out_path, "find_path -o") if r[0] == "ok" else None)
            r = core.cli(argv, capture_stdout=True)
            return r, (r[1] if r[0] == "ok" else None)

        r, text = run_fp(d + "/paths.txt", d + "/out.txt", case["fasta"])
        core.check(r[0] == "ok", "find_path on a file of paths failed: %s", r)
        out = text.split("\n")
        core.check(out[-1] == "", "find_path output does not end with a newline")
        out = out[:-1]
        if case["fasta"]:
            want = []
            for p, e in zip(paths, exp):
                want += [">seq_" + p, e]
        else:
            want = list(exp)
        core.check(out == want, "find_path file output %r, expected %r", out, want)
        # a literal path
        r, text = run_fp(paths[0], d + "/out1.txt", not case["fasta"])
        core.check(r[0] == "ok", "find_path on a literal path failed: %s", r)
        want = (">seq_%s\n" % paths[0] if not case["fasta"] else "") + exp[0] + "\n"
        core.check(text == want, "find_path literal output %r, expected %r", text, want)
        if len(set(paths)) < len(paths):
            classes.add("repeated_path_in_file")
    nontrivial = "walk>=2" in classes and "nonwalk>=2" in classes
    return core.Result(nontrivial, sorted(classes))


# ------------------------------------------------------------------------------------------


def enumerations(tier, shard, nshards):
    def gen():
        idx = 0
        # 2-node graph: 4 link orientations x declared from a or b x 4 step orientation pairs x 2 directions
        for oa, ob in itertools.product("+-", repeat=2):
            for decl in (0, 1):
                link = "L\ta\t%s\tb\t%s\t0M" % (oa, ob) if decl == 0 else "L\tb\t%s\ta\t%s\t0M" % (
                    models.FLIP[ob], models.FLIP[oa])
                text = "S\ta\tAACG\nS\tb\tGTTTC\n" + link + "\n"
                paths = []
                for o1, o2 in itertools.product("><", repeat=2):
                    paths.append("%sa%sb" % (o1, o2))
                    paths.append("%sb%sa" % (o1, o2))
                idx += 1
                if idx % nshards == shard:
                    yield {"gfa": text, "paths": paths, "fasta": bool(decl)}
        # self-links
        for oa, ob in itertools.product("+-", repeat=2):
            text = "S\ta\tAACGT\nS\tb\tGG\nL\ta\t%s\ta\t%s\t0M\nL\ta\t+\tb\t+\t0M\n" % (oa, ob)
            paths = ["%sa%sa" % (o1, o2) for o1, o2 in itertools.product("><", repeat=2)]
            paths += [">a>a>b", "<b<a<a", ">a<a>b", "<a>a>b"]
            idx += 1
            if idx % nshards == shard:
                yield {"gfa": text, "paths": paths, "fasta": False}

    yield ("orientation table: 4 link orientations x 2 declaration ends x all 8 two-step paths on a 2-node graph; "
           "4 self-link orientations x all two-step self paths", gen(), True)

    def long_walks():
        # walks far longer than any recursion limit: 1 500 and 3 001 steps around a two-segment cycle, and the same with one bad step
        text = "S\ta\tACG\nS\tb\tTT\nS\tc\tG\nL\ta\t+\tb\t+\t0M\nL\tb\t+\ta\t+\t0M\nL\tb\t+\tc\t-\t0M\n"
        good = ">a>b" * 750
        bad = ">a>b" * 400 + ">b" + ">a>b" * 349
        longer = ">a>b" * 1500 + "<c"
        if shard == 0:
            yield {"gfa": text, "paths": [good, bad, longer, ">a>b"], "fasta": False, "via": "api"}
            yield {"gfa": text, "paths": [longer, good], "fasta": True, "via": "cli"}

    yield ("walks of 1 500 and 3 001 steps around a cycle (and one with a bad step in the middle)", long_walks(), True)
