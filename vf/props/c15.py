"""C15 - graph decomposition primitives are exact (inputs + histories)."""

import itertools
import random

from hypothesis import strategies as st
from hypothesis.stateful import RuleBasedStateMachine, invariant, precondition, rule

from vf import core, graphalgo, models

ID = "C15"
LEVEL = "exploration"
LEVEL_TEXT = (
    "Exhaustive enumeration of every simple graph on <=5 (quick) / <=6 (thorough) labelled nodes in several decorations "
    "(insertion order, link orientation labelling, parallel links, self-links), Hypothesis-generated larger multigraphs, "
    "and a Hypothesis rule-based state machine over add-node / add-link / delete-node histories with a model graph. "
    "Oracles are definition-level brute force (components by closure, articulation by vertex deletion, blocks as maximal "
    "2-connected vertex sets). Exploration with exhaustive sub-spaces is the strongest this family offers here."
)
LEVEL_NOTE = (
    "Trusts vf/graphalgo.py: the brute-force definitions for <=8 nodes and, for larger graphs, a textbook recursive "
    "low-point algorithm that is cross-checked against the brute force on every small graph of the same run."
)
TECHNIQUE = "exhaustive small-graph enumeration + property-based testing (Hypothesis) + stateful model-based testing against brute-force graph definitions"
RULE = (
    "Inputs: every simple graph on <=5/6 labelled nodes x 3 decorations, plus Hypothesis multigraphs of 7-14 nodes with "
    "parallel links, self-links and all orientation labellings; built through GFA.add_node/add_edge in a drawn order. "
    "Checked: all_components == true components (partition); for connected graphs biccs() blocks == true blocks as a set "
    "of node sets with equal count, articulation points equal; dfs(start) duplicate-free and equal to the component. "
    "Histories: rule-based machine (add_node, add_edge with overlap/tags, remove_node over <=6 ids); after every edit "
    "Node.start/Node.end equal the model's (attribute comparison); at generated 'query' steps and at the end of every history "
    "(so that edits are not always separated by queries) neighbors() is the sorted merge, edge_tags mentions only live nodes, the graph "
    "is_equal_to one rebuilt from the model, and the decomposition checks hold. "
    "Non-trivial: graph with >=1 articulation point and >=2 blocks; history with a deletion followed by a further edit. "
    "Distinct by SHA-1 of the case."
    " Later additions: nodes added with sequence and rGFA tags, walk queries (path_exists, extract_path) "
    "after every edit."
)
ASSUMPTIONS = ["disconnected inputs to biccs are outside the statement ('for every connected graph')"]

SIDE_A = {"+": 1, "-": 0}  # L a oa ...: '+' leaves a through its end
SIDE_B = {"+": 0, "-": 1}  # ... b ob: '+' enters b through its start


def budget(tier):
    if tier == "quick":
        return {"examples": 800, "shards": 2, "machine_examples": 300, "steps": 30}
    return {"examples": 6000, "shards": 16, "machine_examples": 4000, "steps": 50}


# ------------------------------------------------------------------------------------------
# building and checking


def build(case):
    from gaftools.gfa import GFA

    if case.get("from_file"):
        import random as _r

        lines = ["S\t%s\t*" % n for n in case["nodes"]] + ["L\t%s\t%s\t%s\t%s\t%dM" % tuple(l) for l in case["links"]]
        _r.Random(case["from_file"]).shuffle(lines)
        with core.workdir() as d:
            core.write_text(d + "/g.gfa", "\n".join(lines) + "\n")
            r = core.call(GFA, d + "/g.gfa")
        core.check(r[0] == "ok", "loading the graph from a GFA file failed: %s", r)
        return r[1]
    g = GFA()
    for n in case["nodes"]:
        g.add_node(n)
    for a, oa, b, ob, ov in case["links"]:
        g.add_edge(a, oa, b, ob, ov)
    return g


def true_structure(nodes, links):
    adj = graphalgo.make_adj(nodes, links)
    comps = graphalgo.components(nodes, adj)
    small = len(nodes) <= 8
    art_lp, blocks_lp = graphalgo.lowpoint(nodes, adj)
    if small:
        art = graphalgo.articulation_brute(nodes, adj)
        blocks = graphalgo.blocks_brute(nodes, adj)
        if art != art_lp or blocks != blocks_lp:
            raise RuntimeError("oracle self-check failed: brute force and low-point disagree on %r %r" % (nodes, links))
    else:
        art, blocks = art_lp, blocks_lp
        a2, b2 = graphalgo.lowpoint_iter(nodes, adj)
        if a2 != art or b2 != blocks:
            raise RuntimeError("oracle self-check failed: recursive and iterative low-point disagree")
    return adj, comps, art, blocks


def check_graph(g, nodes, links):
    """All decomposition checks of the property on library graph g against the true structure."""
    adj, comps, art, blocks = true_structure(nodes, links)
    r = core.call(g.all_components)
    core.check(r[0] == "ok", "all_components failed: %s", r)
    got = r[1]
    core.check(sorted(map(sorted, got)) == sorted(map(sorted, comps)),
               "all_components = %s, true components = %s", sorted(map(sorted, got)), sorted(map(sorted, comps)))
    core.check(sum(len(c) for c in got) == len(nodes), "components do not partition the node set: %s", got)
    core.check(all(not n.visited for n in g.nodes.values()), "all_components left visited flags set")
    for n in nodes:
        r = core.call(g.dfs, n)
        core.check(r[0] == "ok", "dfs(%s) failed: %s", n, r)
        comp = [c for c in comps if n in c][0]
        core.check(len(r[1]) == len(set(r[1])), "dfs(%s) visits a node twice: %s", n, r[1])
        core.check(set(r[1]) == comp, "dfs(%s) = %s, component is %s", n, r[1], sorted(comp))
        if r[1]:
            core.check(r[1][0] == n or len(nodes) == 1, "dfs(%s) does not start at the start node: %s", n, r[1])
    info = {"art": len(art), "blocks": len(blocks), "connected": len(comps) == 1}
    if len(comps) == 1 and len(nodes) >= 1:
        r = core.call(g.biccs)
        core.check(r[0] == "ok", "biccs failed: %s", r)
        got_blocks, got_art = r[1]
        core.check(set(got_art) == art, "articulation points = %s, true = %s", sorted(got_art), sorted(art))
        gb = [frozenset(b) for b in got_blocks]
        core.check(set(gb) == blocks, "biccs blocks = %s, true blocks = %s",
                   sorted(map(sorted, gb)), sorted(map(sorted, blocks)))
        core.check(len(gb) == len(blocks), "biccs reports a block twice: %s", sorted(map(sorted, gb)))
        for l in links:
            a, b = l[0], l[2]
            if a != b:
                core.check(sum(1 for blk in gb if a in blk and b in blk) == 1,
                           "link %s-%s is not inside exactly one reported block", a, b)
    # the primitives must not disturb each other: components again, after dfs/biccs ran on the same object
    r = core.call(g.all_components)
    core.check(r[0] == "ok", "all_components (second call) failed: %s", r)
    core.check(sorted(map(sorted, r[1])) == sorted(map(sorted, comps)),
               "all_components after dfs/biccs = %s, true components = %s", sorted(map(sorted, r[1])), sorted(map(sorted, comps)))
    return info


def run_graph_case(case):
    g = build(case)
    info = check_graph(g, case["nodes"], case["links"])
    classes = ["graph:%d_nodes" % min(len(case["nodes"]), 9)] + (["real_graph_window"] if case.get("real_window") else [])
    if case.get("from_file"):
        classes.append("loaded_from_gfa_file")
    if any(l[0] == l[2] for l in case["links"]):
        classes.append("self_link")
    seen = set()
    for l in case["links"]:
        k = frozenset((l[0], l[2]))
        if k in seen:
            classes.append("parallel_links")
            break
        seen.add(k)
    nontrivial = info["connected"] and info["art"] >= 1 and info["blocks"] >= 2
    if nontrivial:
        classes.append("artic>=1_blocks>=2")
    return core.Result(nontrivial, classes)


# ------------------------------------------------------------------------------------------
# histories


class Model:
    def __init__(self):
        self.nodes = []
        self.attrs = {}  # node -> (sequence, tags) it was added with
        self.links = []  # (a, oa, b, ob, ov, tags) in history order, surviving only

    def sides(self):
        start = {n: set() for n in self.nodes}
        end = {n: set() for n in self.nodes}
        for a, oa, b, ob, ov, _ in self.links:
            sa, sb = SIDE_A[oa], SIDE_B[ob]
            (end if sa == 1 else start)[a].add((b, sb, ov))
            (end if sb == 1 else start)[b].add((a, sa, ov))
        return start, end


def apply_step(g, model, step):
    op = step[0]
    if op == "add_node":
        seq, tags = (step[2], list(step[3] or [])) if len(step) >= 4 else ("", [])
        if step[1] not in model.nodes:
            model.nodes.append(step[1])
            model.attrs[step[1]] = (seq, tags)
        r = core.call(g.add_node, step[1], seq, list(tags)) if len(step) >= 4 else core.call(g.add_node, step[1])
        core.check(r[0] == "ok", "add_node failed: %s", r)
    elif op == "add_edge":
        _, a, oa, b, ob, ov, tags = step
        r = core.call(g.add_edge, a, oa, b, ob, ov, list(tags) if tags else None)
        core.check(r[0] == "ok", "add_edge failed: %s", r)
        model.links.append((a, oa, b, ob, ov, tuple(tags) if tags else ()))
    elif op == "remove_node":
        n = step[1]
        r = core.call(g.remove_node, n)
        core.check(r[0] == "ok", "remove_node(%s) failed: %s", n, r)
        model.nodes.remove(n)
        model.attrs.pop(n, None)
        model.links = [l for l in model.links if l[0] != n and l[2] != n]
    else:
        raise AssertionError(op)


def check_sides(g, model):
    """Adjacency of both link ends against the model, by attribute access only (no library query is made)."""
    core.check(set(g.nodes) == set(model.nodes), "node set %s, model %s", sorted(g.nodes), sorted(model.nodes))
    start, end = model.sides()
    for n in model.nodes:
        core.check(g.nodes[n].start == start[n], "node %s start side = %s, model = %s", n, sorted(g.nodes[n].start), sorted(start[n]))
        core.check(g.nodes[n].end == end[n], "node %s end side = %s, model = %s", n, sorted(g.nodes[n].end), sorted(end[n]))
    return start, end


def check_state(g, model, rebuild_seed=0):
    from gaftools.gfa import GFA

    start, end = check_sides(g, model)
    for n in model.nodes:
        want = sorted([x[0] for x in start[n]] + [x[0] for x in end[n]])
        core.check(g.nodes[n].neighbors() == want, "neighbors(%s) = %s, model = %s", n, g.nodes[n].neighbors(), want)
    for k in g.edge_tags:
        core.check(k[0] in g.nodes and k[2] in g.nodes, "edge_tags still refers to a deleted node: %s", k)
    # the graph built directly from the surviving nodes and links
    fresh = GFA()
    order = list(model.nodes)
    random.Random(rebuild_seed).shuffle(order)
    for n in order:
        seq_, tags_ = model.attrs.get(n, ("", []))
        fresh.add_node(n, seq_, list(tags_)) if (seq_ or tags_) else fresh.add_node(n)
    for a, oa, b, ob, ov, tags in model.links:
        fresh.add_edge(a, oa, b, ob, ov, list(tags) if tags else None)
    core.check(g.is_equal_to(fresh) and fresh.is_equal_to(g), "graph differs from the one built from the surviving nodes and links")
    core.check(g.edge_tags == fresh.edge_tags, "edge tags %s differ from those of the rebuilt graph %s", g.edge_tags, fresh.edge_tags)
    # walks over the current links: every two-step path is a walk exactly when a link joins the two steps
    lm = models.LinkModel([l[:4] for l in model.links])
    for a in model.nodes[:5]:
        for b in model.nodes[:5]:
            for oa in "><":
                for ob in "><":
                    want = lm.is_walk([(oa, a), (ob, b)])
                    r = core.call(g.path_exists, [oa + a, ob + b])
                    core.check(r[0] == "ok" and bool(r[1]) == want, "path_exists(%s%s%s%s) = %s, the links %s it", oa, a, ob, b, r,
                               "permit" if want else "do not permit")
                    sa, sb = model.attrs.get(a, ("", []))[0], model.attrs.get(b, ("", []))[0]
                    if sa and sb:
                        r = core.call(g.extract_path, oa + a + ob + b)
                        exp = ((sa if oa == ">" else models.revcomp(sa)) + (sb if ob == ">" else models.revcomp(sb))) if want else ""
                        core.check(r[0] == "ok" and r[1] == exp, "extract_path(%s%s%s%s) = %s, expected %r", oa, a, ob, b, r, exp)
    if model.nodes:
        check_graph(g, list(model.nodes), [l[:5] for l in model.links])


def run_history_case(case):
    from gaftools.gfa import GFA

    g = GFA()
    model = Model()
    deletion_then_edit = False
    deleted = False
    queries = any(s[0] == "query" for s in case["steps"])
    for step in case["steps"]:
        if step[0] == "query":
            check_state(g, model, case.get("rebuild_seed", 0))
            continue
        apply_step(g, model, step)
        if deleted:
            deletion_then_edit = True
        if step[0] == "remove_node":
            deleted = True
        if queries:
            check_sides(g, model)
        else:  # histories recorded before the 'query' step existed: query after every edit
            check_state(g, model, case.get("rebuild_seed", 0))
    classes = ["history"]
    if deletion_then_edit:
        classes.append("deletion_then_edit")
    if any(s[0] == "add_edge" and s[6] for s in case["steps"]):
        classes.append("tagged_link")
    return core.Result(deletion_then_edit, classes)


def run_case(case):
    if case.get("kind") == "history":
        return run_history_case(case)
    return run_graph_case(case)


IDS = ["a", "b", "c", "d", "e", "f"]


def machine(tier, stats):
    class GraphHistory(RuleBasedStateMachine):
        def __init__(self):
            super().__init__()
            from gaftools.gfa import GFA

            self.g = GFA()
            self.model = Model()
            self.steps = []

        def do(self, step):
            self.steps.append(step)
            try:
                if step[0] == "query":
                    check_state(self.g, self.model, len(self.steps))
                else:
                    apply_step(self.g, self.model, step)
                    check_sides(self.g, self.model)
            except core.Violation as v:
                v.case = {"kind": "history", "steps": [list(s) for s in self.steps], "rebuild_seed": len(self.steps)}
                # replay uses one rebuild seed for all steps; that is fine, the seed only orders node insertion
                raise

        @rule(n=st.sampled_from(IDS))
        def add_node(self, n):
            self.do(("add_node", n))

        @rule(n=st.sampled_from(IDS), seq=st.sampled_from(["ACG", "T", "GGcat"]),
              tags=st.sampled_from([[], ["SN:Z:chr1", "SO:i:0", "SR:i:0"], ["SN:Z:h#1#x", "SO:i:7", "SR:i:1", "xx:Z:q"]]))
        def add_node_with_sequence_and_tags(self, n, seq, tags):
            self.do(("add_node", n, seq, tags))

        @precondition(lambda self: len(self.model.nodes) >= 1)
        @rule(data=st.data(), oa=st.sampled_from("+-"), ob=st.sampled_from("+-"), ov=st.sampled_from([0, 0, 3]),
              tags=st.sampled_from([None, None, ["xx:i:1"], ["ab:Z:q", "cd:i:2"]]))
        def add_edge(self, data, oa, ob, ov, tags):
            a = data.draw(st.sampled_from(self.model.nodes))
            b = data.draw(st.sampled_from(self.model.nodes))
            self.do(("add_edge", a, oa, b, ob, ov, tags))

        @precondition(lambda self: len(self.model.nodes) >= 1)
        @rule(data=st.data())
        def remove_node(self, data):
            n = data.draw(st.sampled_from(self.model.nodes))
            self.do(("remove_node", n))

        @rule()
        def query(self):
            """all primitives are queried (components, dfs, biccs, neighbors) - not after every edit"""
            self.do(("query",))

        def teardown(self):
            if self.steps and self.steps[-1][0] != "query":
                self.do(("query",))
            case = {"kind": "history", "steps": [list(s) for s in self.steps]}
            dele = [i for i, s in enumerate(self.steps) if s[0] == "remove_node"]
            nontrivial = bool(dele) and any(s[0] != "query" for s in self.steps[dele[0] + 1:])
            cl = ["history"] + (["deletion_then_edit"] if nontrivial else [])
            stats.record(case, core.Result(nontrivial, cl))

    return GraphHistory


# ------------------------------------------------------------------------------------------
# generated larger multigraphs


@st.composite
def strategy_(draw, tier):
    if tier == "thorough" and draw(st.integers(0, 9)) == 0:
        from vf import realgraph

        g = realgraph.window(draw(st.integers(0, realgraph.n_elements() - 3)), draw(st.integers(3, 40)))
        order = draw(st.permutations(list(g["nodes"])))
        return {"kind": "graph", "nodes": list(order), "links": [[l[0], l[1], l[2], l[3], 0] for l in g["links"]],
                "real_window": g["real_window"]}
    n = draw(st.integers(7, 14))
    ids = ["n%d" % i for i in range(n)]
    # a random tree-ish backbone plus extra links gives many articulation points and blocks
    links = []
    for i in range(1, n):
        if draw(st.integers(0, 9)) == 0:
            continue  # leave it disconnected sometimes
        j = draw(st.integers(max(0, i - 4), i - 1))
        links.append([ids[i], draw(st.sampled_from("+-")), ids[j], draw(st.sampled_from("+-")), 0])
    for _ in range(draw(st.integers(0, n))):
        a = draw(st.sampled_from(ids))
        b = draw(st.sampled_from(ids))
        links.append([a, draw(st.sampled_from("+-")), b, draw(st.sampled_from("+-")), draw(st.sampled_from([0, 0, 2]))])
    order = draw(st.permutations(ids))
    lorder = draw(st.permutations(range(len(links))))
    case = {"kind": "graph", "nodes": list(order), "links": [links[k] for k in lorder]}
    if draw(st.integers(0, 2)) == 0:
        case["from_file"] = draw(st.integers(1, 10**6))  # written as GFA text (lines shuffled) and loaded
    return case


def strategy(tier):
    return strategy_(tier)


def enumerations(tier, shard, nshards):
    maxn = 5 if tier == "quick" else 6
    orients = [("+", "+"), ("+", "-"), ("-", "+"), ("-", "-")]

    def gen():
        idx = 0
        for n in range(1, maxn + 1):
            ids = IDS[:n]
            pairs = list(itertools.combinations(ids, 2))
            for mask in range(1 << len(pairs)):
                idx += 1
                if idx % nshards != shard:
                    continue
                edges = [p for k, p in enumerate(pairs) if mask >> k & 1]
                for deco in range(3):
                    rnd = random.Random(mask * 7 + deco)
                    order = list(ids)
                    links = []
                    for k, (a, b) in enumerate(edges):
                        oa, ob = orients[(k + deco) % 4]
                        if deco == 1 and k % 2:
                            a, b = b, a
                        links.append([a, oa, b, ob, 0])
                    if deco == 1:
                        order.reverse()
                    if deco == 2:
                        rnd.shuffle(order)
                        rnd.shuffle(links)
                        if edges:
                            a, b = edges[0]
                            links.append([b, "-", a, "+", 5])  # a parallel link between other sides
                        links.append([ids[-1], "+", ids[-1], rnd.choice("+-"), 0])  # a self-link
                    yield {"kind": "graph", "nodes": order, "links": links}

    yield ("every simple graph on 1..%d labelled nodes x 3 decorations" % maxn, gen(), True)
