"""C16 - GAF optional fields survive parsing and re-serialisation verbatim."""

import random

from hypothesis import strategies as st

from vf import core, fakemp, gen_graph, idx, models, realign_common as rc

ID = "C16"
LEVEL = "exploration"
LEVEL_TEXT = (
    "Generated-input search over records whose optional fields are drawn from the SAM/GAF tag grammar (signed ints, floats "
    "with sign/exponent/leading dot, Z strings with punctuation and inner spaces, A characters, H, B arrays, repeated tags, "
    "ds:Z, with and without cg:Z at any position) and whose read names are arbitrary printable strings; every re-emitting "
    "consumer is run (view -n, view --format both ways, realign) and the output field list is compared with the input's."
)
LEVEL_NOTE = "Exemptions are exactly the documented ones: name cut at first space, cg:Z may be rewritten (or added by realign), ds:Z may be dropped. Final-field trailing whitespace and embedded tabs are not generated."
TECHNIQUE = "grammar-based property testing (Hypothesis) with a field-list equality oracle over four re-emitting consumers"
RULE = (
    "Hypothesis-generated rGFA with sequences + 1-5 records with reads; optional fields from the full tag grammar, names with "
    "spaces / tag-shaped names. Consumers: view -n (all nodes), view --format stable, view --format unstable (on the model's "
    "stable form), realign. Oracle per output record: name = input name up to the first space, untouched columns identical, "
    "list of optional fields minus cg:Z and ds:Z equals the input's list with the same removal (tag, type, value, order, "
    "multiplicity), nothing invented. Non-trivial = a record with a field outside the plain alphanumeric subset. "
    "Distinct by SHA-1 of the case."
    " Later additions: cs:Z difference strings, MD:Z, alignment scores and other aligner fields, with and "
    "without cg:Z."
)
ASSUMPTIONS = ["a final field ending in whitespace and tabs inside values are excluded (every reader strips the line)"]

KNOWN_REPEATED = "C16-repeated-tag"


def budget(tier):
    if tier == "quick":
        return {"examples": 900, "shards": 2}
    return {"examples": 9000, "shards": 16}


TAGNAMES = ["NM", "AS", "xx", "Xy", "z9", "dv", "rl", "s1", "tp", "cm", "ab", "ds", "cg"]


@st.composite
def tag_value(draw, ty):
    if ty == "A":
        return draw(st.sampled_from(list("PSIs*+-:;!~9a")))
    if ty == "i":
        return draw(st.sampled_from(["0", "7", "-5", "+3", "123456", "-0"]))
    if ty == "f":
        return draw(st.sampled_from(["0.5", "-.5", "1e-5", "+3.25", "7", "2.5E+3", "0.0123", "-1.5e+10"]))
    if ty == "Z":
        return draw(st.text(alphabet=" abXY09_#.-:*/=+,;|()[]{}<>@!?%&~^'\"", min_size=0, max_size=10))
    if ty == "H":
        return draw(st.sampled_from(["", "1A", "00FF", "DEADBEEF"]))
    if ty == "B":
        return draw(st.sampled_from(["c,1,-2", "f,0.5,1e3,-.25", "I,7", "S,0,65535", "C"]))
    raise AssertionError(ty)


@st.composite
def full_tags(draw):
    n = draw(st.integers(0, 5))
    out = []
    for _ in range(n):
        if out and draw(st.integers(0, 7)) == 0:
            # repeat an earlier TAG:TYPE with a new value
            prev = draw(st.sampled_from(out))
            nm, ty = prev.split(":", 2)[:2]
        else:
            nm = draw(st.sampled_from(TAGNAMES))
            ty = draw(st.sampled_from("AifZZHB"))
            if nm in ("ds", "cg") and ty == "Z":
                ty = "i"  # only ds:Z (dropped) and cg:Z (the CIGAR) are special; ds:i / cg:i are ordinary fields
        out.append("%s:%s:%s" % (nm, ty, draw(tag_value(ty))))
    if draw(st.integers(0, 5)) == 0:
        out.insert(draw(st.integers(0, len(out))), "ds:Z:" + draw(st.sampled_from([":20*at:5+ga", "=ACGT-cc", ":7"])))
    if draw(st.integers(0, 4)) == 0:
        # fields other aligners write next to (or instead of) the CIGAR: difference strings, MD, alignment scores
        out.insert(draw(st.integers(0, len(out))), draw(st.sampled_from(
            ["cs:Z::20*ag:10-c:9+tt:8", "cs:Z::7", "cs:Z:=ACGT*ag=TT", "MD:Z:10A5^AC6", "AS:i:-12", "dv:f:0.0021", "id:f:0.998",
             "bq:Z:IIII#", "zd:i:2", "cm:i:38", "s1:i:105", "rl:i:0"])))
    return out


NAMES = ["read1", "r/1", "x#y.z", "ab:Z:foo", "tp:A:S", "q|7", "m64011_190830_220126/1/ccs", "NM:i:3", "a-b_c"]
COMMENTS = ["", "", " runid=7 ch=3", " tp:A:S fake", " 1:N:0:ACGT"]


@st.composite
def strategy_(draw, tier):
    rnd = random.Random(draw(st.integers(0, 2**30)))
    g = draw(gen_graph.rgfa(max_chroms=1, max_elements=3, max_ln=8))
    for d in g["nodes"].values():
        d["seq"] = d["seq"].replace("N", "A")
    lm = models.LinkModel(g["links"])
    names = draw(st.permutations(NAMES))
    lines, fasta = [], []
    for i in range(draw(st.integers(1, 5))):
        tags = draw(full_tags())
        with_cg = draw(st.integers(0, 4)) > 0
        line, read = draw(rc.realign_record(g, lm, names[i], rnd, tags=tags, with_cigar=with_cg,
                                            comment=draw(st.sampled_from(COMMENTS)), max_len=4))
        f = line.split("\t")
        f[-1] = f[-1].rstrip(" ")  # the final field must not end in whitespace
        lines.append("\t".join(f))
        fasta.append(">%s\n%s\n" % (names[i], read))
    return {"gfa": gen_graph.gfa_text(g, with_seq=True, order_seed=draw(st.integers(0, 99))), "gaf": lines,
            "fasta": "".join(fasta), "final_newline": draw(st.integers(0, 3)) > 0}


def strategy(tier):
    return strategy_(tier)


def to_stable_line(nodes, line):
    f = line.split("\t")
    steps = models.parse_path(f[5])
    strand, path, plen, s, e = models.canonical_stable(nodes, steps, int(f[7]), int(f[8]))
    f[4], f[5], f[6], f[7], f[8] = strand, path, str(plen), str(s), str(e)
    if strand == "-":
        f = f[:12] + [("cg:Z:" + models.reverse_cigar(t[5:])) if t.startswith("cg:Z:") and t[5:] else t for t in f[12:]]
    return "\t".join(f)


def strip_exempt(tags):
    return [t for t in tags if not t.startswith("cg:Z:") and not t.startswith("ds:Z:")]


def masked(tags, keep_cg):
    out = []
    for t in tags:
        if t.startswith("ds:Z:"):
            continue
        if t.startswith("cg:Z:"):
            if keep_cg:
                out.append("cg:Z:<cigar>")
            continue
        out.append(t)
    return out


def drop_repeats(tags):
    seen = set()
    out = []
    for t in tags:
        k = ":".join(t.split(":", 2)[:2])
        if k in seen:
            continue
        seen.add(k)
        out.append(t)
    return out


def compare(consumer, inp, out, same_cols, allow_new_cg):
    """Returns True when only the known finding (repeated TAG:TYPE keeps its first occurrence) was observed."""
    fi, fo = inp.split("\t"), out.split("\t")
    core.check(len(fo) >= 12, "%s: output line with fewer than 12 columns: %r", consumer, out)
    core.check(fo[0] == fi[0].split(" ")[0], "%s: read name %r -> %r", consumer, fi[0], fo[0])
    for c in same_cols:
        core.check(fo[c] == fi[c], "%s: column %d changed %r -> %r", consumer, c + 1, fi[c], fo[c])
    had_cg = any(t.startswith("cg:Z:") for t in fi[12:])
    has_cg = any(t.startswith("cg:Z:") for t in fo[12:])
    if not allow_new_cg:
        core.check(has_cg == had_cg, "%s: cg:Z field %s: %r -> %r", consumer, "invented" if has_cg else "lost", inp, out)
    core.check(sum(1 for t in fo[12:] if t.startswith("cg:Z:")) <= 1, "%s: more than one cg:Z field in %r", consumer, out)
    # the CIGAR may be rewritten but keeps its place among the fields; ds:Z may be dropped
    ti = masked(fi[12:], keep_cg=True)
    to = masked(fo[12:], keep_cg=had_cg)
    if to == ti:
        return False
    if to == drop_repeats(ti) and drop_repeats(ti) != ti:
        return True
    raise core.Violation("%s: optional fields %s -> %s" % (consumer, ti, to))


def run_case(case):
    from gaftools.cli import view

    nodes, _ = models.nodes_from_gfa_text(case["gfa"])
    lines = case["gaf"]
    known = False
    with core.workdir() as d:
        core.write_text(d + "/g.gfa", case["gfa"])
        nl = "\n" if case.get("final_newline", True) else ""
        core.write_text(d + "/u.gaf", "\n".join(lines) + nl)
        stable_lines = [to_stable_line(nodes, l) for l in lines]
        core.write_text(d + "/s.gaf", "\n".join(stable_lines) + nl)
        # 1. view -n over every node that occurs
        r = idx.build_index(d + "/u.gaf", d + "/g.gfa", d + "/u.gvi")
        core.check(r[0] == "ok", "index failed: %s", r)
        allnodes = sorted({n for l in lines for _, n in models.parse_path(l.split("\t")[5])})
        res, out = idx.run_view(d, d + "/u.gaf", d + "/g.gfa", d + "/o1.txt", nodes=allnodes, index=d + "/u.gvi")
        core.check(res[0] == "ok" and out is not None and len(out) == len(lines), "view -n failed or lost records: %s %r", res, out)
        for a, b in zip(lines, out):
            known |= compare("view -n", a, b, range(1, 12), False)
        # 2. view --format stable
        res, out = idx.run_view(d, d + "/u.gaf", d + "/g.gfa", d + "/o2.txt", fmt="stable")
        core.check(res[0] == "ok" and out is not None and len(out) == len(lines), "view --format stable failed: %s", res)
        for a, b in zip(lines, out):
            known |= compare("view --format stable", a, b, (1, 2, 3, 9, 10, 11), False)
        # 3. view --format unstable on the stable form
        res, out = idx.run_view(d, d + "/s.gaf", d + "/g.gfa", d + "/o3.txt", fmt="unstable")
        core.check(res[0] == "ok" and out is not None and len(out) == len(lines), "view --format unstable failed: %s", res)
        for a, b in zip(stable_lines, out):
            known |= compare("view --format unstable", a, b, (1, 2, 3, 9, 10, 11), False)
        # 4. realign
        sub = {"gfa": case["gfa"], "gaf": lines, "fasta": case["fasta"], "cores": 1, "batch": 2}
        res, text = rc.run_realign(sub, d, platform=fakemp.Platform(fakemp.Chooser([])), sub="o4.gaf", gaf_name="u.gaf")
        core.check(res[0] == "ok" and text is not None, "realign failed: %s", res)
        out = text.split("\n")[:-1]
        core.check(len(out) == len(lines), "realign lost records")
        for a, b in zip(lines, out):
            known |= compare("realign", a, b, (1, 2, 3, 4, 5, 6, 7, 8, 11), True)
    cl = set()
    nontrivial = False
    import re

    if not case.get("final_newline", True):
        cl.add("no_final_newline")

    for l in lines:
        f = l.split("\t")
        for t in f[12:]:
            if t.startswith("cg:Z:"):
                continue
            nm, ty, val = t.split(":", 2)
            cl.add("type:" + ty)
            if not re.fullmatch(r"[A-Za-z0-9.]+", val):
                nontrivial = True
                if val == "":
                    cl.add("empty_value")
                elif val[0] in "+-":
                    cl.add("signed_value")
                elif " " in val:
                    cl.add("space_in_value")
                elif ":" in val:
                    cl.add("colon_in_value")
                else:
                    cl.add("punctuation_in_value")
        if not any(t.startswith("cg:Z:") for t in f[12:]):
            cl.add("no_cigar")
            nontrivial = True
        elif f[12:] and not f[-1].startswith("cg:Z:"):
            cl.add("cg_not_last")
        if " " in f[0]:
            cl.add("name_with_comment")
        if re.match(r"[A-Za-z][A-Za-z0-9]:[AifZHB]:", f[0]):
            cl.add("tag_shaped_name")
        if any(t.startswith("ds:Z:") for t in f[12:]):
            cl.add("ds_tag")
        if drop_repeats(strip_exempt(f[12:])) != strip_exempt(f[12:]):
            cl.add("repeated_tag")
    return core.Result(nontrivial, sorted(cl), [KNOWN_REPEATED] if known else [])
