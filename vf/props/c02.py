"""C02 - conversion is lossless: round trips and untouched columns."""

from hypothesis import strategies as st

from vf import conv, core, gen_gaf, gen_graph, models

ID = "C02"
LEVEL = "exploration"
LEVEL_TEXT = (
    "Generated-input search over valid rGFAs and GAF files of 1-12 canonical '+'-strand walk records, with two chained "
    "`view --format` runs in each direction; round-trip and column-equality oracles are exact. Exploration fits the "
    "'every file, both directions' quantifier."
)
LEVEL_NOTE = "Trusts the model's canonical stable form (vf/models.canonical_stable) as the definition of gaftools' own canonical stable record."
TECHNIQUE = "property-based testing (Hypothesis) with exact round-trip oracles (U->S->U and S->U->S) and column-preservation checks"
RULE = (
    "Hypothesis-generated rGFA + GAF of 1-12 canonical records (alignment touches first and last node) with plain optional "
    "fields; U->S->U must reproduce every input line exactly; S(model-canonical)->U->S must reproduce it exactly; after each "
    "single conversion: same number of lines, read names in input order, columns 1-4 and 10-12 and all optional fields except "
    "cg byte-identical. Non-trivial = file with >=2 records of which >=1 has >=2 nodes and a merged interval / strand flip / "
    "separated haplotype segments / >=3 reference nodes / revisit. Distinct by SHA-1 of the case."
    " Later additions: the same as C01 (unlinked reference gaps, unusual segment and contig names, cs:Z/MD:Z "
    "fields, other record types in the graph file)."
)
ASSUMPTIONS = ["read names contain no space here (the name-truncation exception is exercised in C16)"]


def budget(tier):
    if tier == "quick":
        return {"examples": 600, "shards": 2}
    return {"examples": 4000, "shards": 16}


@st.composite
def strategy_(draw, tier):
    g, recs = draw(conv.graph_and_records(canonical=True, max_records=12, tier=tier, real=True))
    # repeat some walks so that a record is converted after another one that used the same nodes
    if len(recs) >= 2 and draw(st.booleans()):
        src = recs[draw(st.integers(0, len(recs) - 1))]
        k = draw(st.integers(0, len(recs) - 1))
        clone = dict(recs[k])
        steps = [tuple(s) for s in src["steps"]]
        cut = draw(st.integers(0, len(steps) - 1))
        sub = steps[cut:]
        fresh = draw(gen_gaf.record(g, None, canonical=True, name=clone["name"], steps=sub))
        recs[k] = fresh
    direction = draw(st.sampled_from(["u2s2u", "s2u2s"]))
    if direction == "u2s2u":
        lines = [gen_gaf.record_line(r) for r in recs]
    else:
        lines = [conv.stable_line(g["nodes"], r) for r in recs]
    extra = None
    if "real_window" not in g and draw(st.integers(0, 4)) == 0:
        # the graph went through order_gfa before: every S line carries BO and NO (conversion ignores them)
        from vf.props import c08

        extra = c08.tag_graph(g)
    return {"gfa": gen_graph.gfa_text(g, with_seq=False, order_seed=draw(st.integers(0, 99)), extra_tags=extra),
            "gaf": lines, "dir": direction, "via": draw(st.sampled_from(["api", "api", "cli", "cli_stdout"]))}


def strategy(tier):
    return strategy_(tier)


def check_columns(inp, out, what):
    core.check(out is not None, "%s: no complete output", what)
    core.check(len(out) == len(inp), "%s: %d input records, %d output records", what, len(inp), len(out))
    for a, b in zip(inp, out):
        fa, fb = a.split("\t"), b.split("\t")
        core.check(len(fb) >= 12, "%s: output line with fewer than 12 columns: %r", what, b)
        core.check(fa[0] == fb[0], "%s: record order/name changed: %s -> %s", what, fa[0], fb[0])
        for c in (1, 2, 3, 9, 10, 11):
            core.check(fa[c] == fb[c], "%s: column %d changed %s -> %s in %s", what, c + 1, fa[c], fb[c], fa[0])
        ta = models.masked_fields(fa[12:], drop=())
        tb = models.masked_fields(fb[12:], drop=())
        core.check(ta == tb, "%s: optional fields changed %s -> %s in %s", what, ta, tb, fa[0])


def convert_bgzf(case, lines, fmt):
    """whole-file conversion of a BGZF-compressed GAF (block cuts from the case)"""
    from vf import bgzf, idx

    with core.workdir() as d:
        core.write_text(d + "/g.gfa", case["gfa"])
        bgzf.write_bgzf(d + "/in.gaf.gz", "".join(l + "\n" for l in lines).encode(), case["bgzf"]["cuts"])
        return idx.run_view(d, d + "/in.gaf.gz", d + "/g.gfa", d + "/out.gaf", fmt=fmt)


def run_case(case):
    nodes, _ = models.nodes_from_gfa_text(case["gfa"])
    first, second = ("stable", "unstable") if case["dir"] == "u2s2u" else ("unstable", "stable")
    inp = case["gaf"]
    if case.get("bgzf"):
        r1, mid = convert_bgzf(case, inp, first)
        core.check(r1[0] == "ok", "view --format %s on the BGZF file failed: %s", first, r1)
        check_columns(inp, mid, "to " + first + " (BGZF input)")
        r2, back = convert_bgzf(case, mid, second)
        core.check(r2[0] == "ok", "view --format %s (second leg, BGZF input) failed: %s", second, r2)
        check_columns(mid, back, "back to " + second + " (BGZF input)")
        for a, m, b in zip(inp, mid, back):
            core.check(a == b, "round trip %s (BGZF input) does not reproduce the record:\n in  %r\n out %r", case["dir"], a[:200], b[:200])
        return core.Result(True, ["large_bgzf_file", case["dir"]])
    r1, mid = conv.view_convert(case["gfa"], inp, first, via=case.get("via", "api"))
    core.check(r1[0] == "ok", "view --format %s failed: %s", first, r1)
    check_columns(inp, mid, "to " + first)
    r2, back = conv.view_convert(case["gfa"], mid, second, via=case.get("via", "api"))
    core.check(r2[0] == "ok", "view --format %s (second leg) failed: %s on %r", second, r2, mid)
    check_columns(mid, back, "back to " + second)
    for a, m, b in zip(inp, mid, back):
        core.check(a == b, "round trip %s does not reproduce the record:\n in  %r\n mid %r\n out %r", case["dir"], a, m, b)
    classes = set()
    interesting = 0
    ulines = inp if case["dir"] == "u2s2u" else mid
    for l in ulines:
        steps = models.parse_path(l.split("\t")[5])
        feats = conv.path_features(nodes, steps)
        classes |= {case["dir"] + ":" + f for f in feats}
        if "multi_node" in feats and feats & {"merged_interval", "strand_flip", "hap_separated_segments", "ref_run>=3", "revisit"}:
            interesting += 1
    if any(n.startswith("s") and n[1:].isdigit() and int(n[1:]) > 20000 for n in nodes):
        classes.add("real_graph_window")
    return core.Result(len(inp) >= 2 and interesting >= 1, sorted(classes))


def enumerations(tier, shard, nshards):
    yield from enumerations_small(tier, shard, nshards)
    if shard != 0:
        return

    def gen():
        from vf import idx

        # 1300 records of exactly 128 bytes: records end on every 64 KiB boundary of the uncompressed stream
        for stable, n in ((False, 4400), (True, 700)):
            g, case = idx.big_file_case(41, n, stable, line_len=128 if not stable else 256, block=65280, canonical=True)
            canon = []
            for l in case["gaf"]:
                canon.append(l)
            yield {"gfa": case["gfa"], "gaf": canon, "dir": "s2u2s" if stable else "u2s2u", "bgzf": case["bgzf"]}

    yield ("large BGZF files whose records end exactly on 64 KiB boundaries (4400 x 128 B unstable, 700 x 256 B stable)", gen(), True)

    def empty():
        # "any number of records" includes none: an empty GAF converts to an empty GAF (plain, and BGZF with the EOF block only)
        g = conv.fixed_graph()
        gfa = gen_graph.gfa_text(g, with_seq=True, order_seed=5)
        for direction in ("u2s2u", "s2u2s"):
            for via in ("api", "cli", "cli_stdout"):
                yield {"gfa": gfa, "gaf": [], "dir": direction, "via": via}
            yield {"gfa": gfa, "gaf": [], "dir": direction, "bgzf": {"cuts": [], "empty": False}}

    yield ("a GAF without any record, both directions, plain and BGZF", empty(), True)


def enumerations_small(tier, shard, nshards):
    def gen():
        g, recs = conv.small_space_records(canonical=True, max_steps=3 if tier == "quick" else 5)
        gfa = gen_graph.gfa_text(g, with_seq=True, order_seed=5)
        chunk = 250
        k = 0
        for direction in ('u2s2u', 's2u2s'):
            for i in range(0, len(recs), chunk):
                k += 1
                if k % nshards != shard:
                    continue
                part = recs[i:i + chunk]
                if direction.startswith("u2s"):
                    lines = [gen_gaf.record_line(r) for r in part]
                else:
                    lines = [conv.stable_line(g["nodes"], r) for r in part]
                yield {"gfa": gfa, "gaf": lines, "dir": direction, "via": "api"}

    yield ("exhaustive: every walk of 1-3 (quick) / 1-5 (thorough) steps over a fixed 8-segment graph (reference run, abutting and separated haplotype "
           "segments, inversion, hairpin, tandem duplication, deletion) x boundary offsets, both directions", gen(), True)
