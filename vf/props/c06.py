"""C06 - order_gfa assigns BO/NO tags that encode the bubble chain."""

import collections

from hypothesis import strategies as st

from vf import core, gen_graph, graphalgo, models, ordergfa

ID = "C06"
LEVEL = "exploration"
LEVEL_TEXT = (
    "Generated-input search over rGFAs of 1-3 chromosomes with linear bubble chains (end bubbles, bridges, nested ears, "
    "inversions, multi-segment alleles, insertion/deletion alleles, single-segment components) x drawn S/L line "
    "permutations x drawn --chromosome_order x stale BO/NO tags x PYTHONHASHSEED (one per shard). Oracle built from the "
    "input graph only: brute-force/low-point blocks and articulation points, reference order of chain elements; plus "
    "metamorphic re-runs on a second line permutation with stale tags."
)
LEVEL_NOTE = "Trusts vf/graphalgo.py (cross-validated in C15) and models.chain_decompose's reading of 'reference order'. BO values themselves are not pinned, only their order and grouping."
TECHNIQUE = "property-based testing (Hypothesis) with a definition-level block/articulation oracle + metamorphic line-permutation/stale-tag re-runs across hash seeds"
RULE = (
    "Hypothesis-generated multi-chromosome rGFA (chains of 2-7 elements or single segments) written in two line orders "
    "(second one with stale BO/NO tags), a drawn --chromosome_order over a non-empty subset, by_chrom on/off. Oracle on the "
    "output tags: NO=0 <=> articulation point; nodes with NO>=1 grouped by BO == blocks minus articulation points, numbered "
    "1..M in lexicographic id order; BO strictly increases along the chain elements in reference order; chromosomes occupy "
    "disjoint BO ranges in requested order; both renderings give the identical node->(BO,NO) map. Non-trivial = >=2 bubbles, "
    "or a nested/inverted bubble, or >=2 chromosomes requested, or exactly one articulation point. Distinct by SHA-1 of the case."
    " Later additions: segment names that look like internal names (0, b0, bubble1), haplotype tips beyond "
    "the chain ends, one-segment chromosomes with a self-link, a chromosome named 'complete', components "
    "named after a haplotype contig (either strand), haplotype contigs shared between chromosomes."
)
ASSUMPTIONS = [
    "components without any articulation point (one block) and chains whose end element has no rank-0 segment are not generated (the statement does not define their order)",
]


def HASHSEEDS(tier):
    return [0, 3] if tier == "quick" else list(range(16))


def budget(tier):
    if tier == "quick":
        return {"examples": 600, "shards": 2}
    return {"examples": 6000, "shards": 16}


@st.composite
def elements(draw):
    return draw(st.sampled_from([0, 1, 2, 2, 3, 4, 5, 7]))


@st.composite
def strategy_(draw, tier):
    import random

    if tier == "thorough" and draw(st.integers(0, 7)) == 0:
        from vf import realgraph

        g = realgraph.window(draw(st.integers(0, realgraph.n_elements() - 3)), draw(st.integers(5, 60)))
        stale = {n: ["BO:i:%d" % draw(st.integers(0, 50)), "NO:i:%d" % draw(st.integers(0, 5))] for n in g["nodes"]}
        return {"gfa": gen_graph.gfa_text(g, with_seq=False, order_seed=draw(st.integers(0, 999))),
                "gfa2": gen_graph.gfa_text(g, with_seq=False, order_seed=draw(st.integers(0, 999)), extra_tags=stale),
                "order": "chr1", "by_chrom": draw(st.integers(0, 1)) == 1, "real_window": g["real_window"]}

    rnd = random.Random(draw(st.integers(0, 2**30)))
    start = draw(st.sampled_from([0, 0, 6, 95, 996]))
    b = gen_graph._Builder(draw, rnd, [draw(st.sampled_from(["s", "s", "", "b"])), draw(st.sampled_from(["utg", "n", "s0", "b"]))], start, 9)
    b.cycles = draw(st.booleans())
    b.tips = draw(st.integers(0, 2)) == 0
    nchrom = draw(st.integers(1, 3))
    pool = draw(st.sampled_from([["chr1", "chr2", "chrX", "chr10_alt", "chr1.mat", "chr1.pat", "complete"]] * 3
                                + [["1", "11", "21", "2", "X", "chr1"], ["chr1", "Achr1", "1", "r1", "chr11"]]))  # names that are suffixes of each other
    names = draw(st.permutations(pool))[:nchrom]
    for name in names:
        c = b.chain(name, draw(elements()))
        if len(c["nodes"]) == 1 and draw(st.booleans()):
            # a one-segment chromosome with a link onto itself (circular chrM, tandem repeat, hairpin)
            n0 = c["nodes"][0]
            o1, o2 = draw(st.sampled_from([("+", "+"), ("-", "-"), ("+", "-"), ("-", "+")]))
            b.links.append([n0, o1, n0, o2])
    b.fix_majority()
    g = {"nodes": b.nodes, "links": b.links}
    if draw(st.integers(0, 3)) == 0:
        # a reference segment whose name looks like the name a tool might give a collapsed bubble or a counter
        ref_nodes = [n for c in b.chroms for n in c["ref"]]
        old = draw(st.sampled_from(ref_nodes))
        new = draw(st.sampled_from(["%d", "b%d", "B%d", "bubble%d", "bubble_%d", "s%d", "n%d", "c%d"])) % draw(st.integers(0, 3))
        if new not in g["nodes"]:
            mp = {old: new}
            g = gen_graph.rename_nodes(g, mp)
            for c in b.chroms:
                c["ref"] = [mp.get(n, n) for n in c["ref"]]
                c["nodes"] = [mp.get(n, n) for n in c["nodes"]]
    # a graph of a sub-region keeps the original offsets: reference coordinates need not start at 0
    for c in b.chroms:
        off = draw(st.sampled_from([0, 0, 95, 9990, 99999995]))
        for n in c["ref"]:
            g["nodes"][n]["so"] += off
    if draw(st.integers(0, 5)) == 0:
        # a haplotype segment whose contig name is a proper prefix of the chromosome name (chr1 inside chr10, GRCh38 inside
        # GRCh38#0#chr1): names are compared as whole strings
        c = draw(st.sampled_from(b.chroms))
        haps_ = [n for n in c["nodes"] if g["nodes"][n]["sr"] != 0]
        short = c["name"][:-1]
        if haps_ and short and short not in names and not any(d_["sn"] == short for d_ in g["nodes"].values()):
            n_ = draw(st.sampled_from(haps_))
            g["nodes"][n_]["sn"], g["nodes"][n_]["so"], g["nodes"][n_]["sr"] = short, 0, 1
    keys = list(names)
    if draw(st.integers(0, 4)) == 0:
        # a component in which one haplotype contig has more segments than the reference: order_gfa names it after that
        # contig (majority vote); the chain is still walked in reference order
        for ci, c in enumerate(b.chroms):
            haps = [n for n in c["nodes"] if g["nodes"][n]["sr"] != 0]
            if len(haps) > len(c["ref"]):
                big = "HG01#1#big%d" % ci
                pos = 0
                seq_ = haps if draw(st.booleans()) else list(reversed(haps))  # the contig may lie on the opposite strand
                for n in seq_:
                    g["nodes"][n]["sn"], g["nodes"][n]["sr"], g["nodes"][n]["so"] = big, 1, pos
                    pos += g["nodes"][n]["ln"] + draw(st.sampled_from([0, 0, 5]))
                keys[ci] = big
                break
    k = draw(st.integers(1, nchrom))
    order = list(draw(st.permutations(keys)))[:k]
    stale = {}
    for n in g["nodes"]:
        stale[n] = ["BO:i:%d" % draw(st.integers(0, 50)), "NO:i:%d" % draw(st.integers(0, 5))]
    text1 = gen_graph.gfa_text(g, with_seq=False, order_seed=draw(st.integers(0, 999)))
    text2 = gen_graph.gfa_text(g, with_seq=False, order_seed=draw(st.integers(0, 999)), extra_tags=stale)
    return {"gfa": text1, "gfa2": text2, "order": ",".join(order), "by_chrom": draw(st.integers(0, 1)) == 1,
            "via": draw(st.sampled_from(["api", "api", "cli"]))}


def strategy(tier):
    return strategy_(tier)


def name_components(nodes, links):
    adj = graphalgo.make_adj(nodes, links)
    named = {}
    for comp in graphalgo.components(nodes, adj):
        cnt = collections.Counter(nodes[n]["sn"] for n in comp)
        top = cnt.most_common(2)
        if len(top) > 1 and top[0][1] == top[1][1]:
            return None
        if top[0][0] in named:
            return None  # two components with the same majority contig: a chromosome name no longer names one component
        named[top[0][0]] = comp
    return named


def collect_tags(files, by_chrom, order):
    """node -> (BO, NO), per chromosome -> set of nodes written"""
    outs = ordergfa.outputs_by_chrom(files, by_chrom, order)
    tags = {}
    for key, (gfa, csv, ng, ns) in outs.items():
        core.check(ng == 1 and gfa is not None, "expected exactly one output GFA for %s, found %d (files: %s)", key, ng, sorted(files))
        segs, s_order, links, kinds, bono = ordergfa.parse_ordered_gfa(gfa)
        for n, v in bono.items():
            core.check(n not in tags, "segment %s written twice", n)
            tags[n] = v
    return tags


def judge(nodes, links, named, order, tags):
    classes = set()
    nontrivial = False
    last_max = None
    for chrom in order:
        comp = named[chrom]
        dec = models.chain_decompose(nodes, links, comp)
        if not (dec["shape"] in ("chain", "single") and dec.get("oriented") and dec.get("monotone")
                and len(dec["scaffold_sn"]) <= 1):
            raise RuntimeError("generator produced a component outside the domain: %s" % dec.get("shape"))
        for n in comp:
            core.check(n in tags, "node %s of %s has no BO/NO in the output", n, chrom)
        art = dec["art"] if dec["shape"] == "chain" else set(comp)
        got_scaffold = {n for n in comp if tags[n][1] == 0}
        core.check(got_scaffold == art, "%s: nodes with NO=0 are %s, articulation points are %s", chrom,
                   sorted(got_scaffold), sorted(art))
        groups = {}
        for n in comp:
            if tags[n][1] != 0:
                groups.setdefault(tags[n][0], set()).add(n)
        want_groups = {frozenset(b - dec["art"]) for b in dec["blocks"] if b - dec["art"]} if dec["shape"] == "chain" else set()
        core.check({frozenset(v) for v in groups.values()} == want_groups,
                   "%s: bubbles by BO are %s, blocks minus articulation points are %s", chrom,
                   sorted(map(sorted, groups.values())), sorted(map(sorted, want_groups)))
        for bo, grp in groups.items():
            nos = [tags[n][1] for n in sorted(grp)]
            core.check(nos == list(range(1, len(grp) + 1)), "%s: bubble BO=%d nodes %s have NO %s, expected 1..%d in lexicographic id order",
                       chrom, bo, sorted(grp), nos, len(grp))
        bos = []
        for kind, val in dec["elements"]:
            if kind == "s":
                bos.append(tags[val][0])
            else:
                vals = {tags[n][0] for n in val}
                core.check(len(vals) == 1, "%s: bubble %s has several BO values %s", chrom, val, sorted(vals))
                bos.append(vals.pop())
        core.check(all(a < b for a, b in zip(bos, bos[1:])),
                   "%s: BO does not strictly increase along the chain in reference order: %s for elements %s", chrom, bos,
                   dec["elements"])
        if last_max is not None:
            core.check(min(bos) > last_max, "%s: BO range starts at %d but the previous chromosome reached %d", chrom, min(bos), last_max)
        last_max = max(bos)
        nb = sum(1 for k, _ in dec["elements"] if k == "b")
        classes.add("artic=%s" % ("1" if len(dec["art"]) == 1 else ("2" if len(dec["art"]) == 2 else (">=3" if dec["art"] else "0(single)"))))
        if nb >= 2:
            classes.add("bubbles>=2")
            nontrivial = True
        if len(dec["art"]) == 1:
            nontrivial = True
        # walk of the oracle started at the lowest-key end; was that the high-SO end?
    if any(all(nodes[n]["sr"] != 0 for n in named[c] if nodes[n]["sn"] == c) for c in order):
        classes.add("component_named_after_haplotype_contig")
    if len(order) >= 2:
        classes.add("chromosomes>=2")
        nontrivial = True
    return nontrivial, classes


def run_case(case):
    nodes, links = models.nodes_from_gfa_text(case["gfa"])
    named = name_components(nodes, links)
    if named is None:
        return core.Result(False, ["excluded:majority_tie"])  # name_comps is a majority vote; ties are outside the domain
    order = case["order"].split(",")
    if case.get("real_window") and order == ["chr1"] and "chr1" not in named and len(named) == 1:
        order = list(named)  # a window dominated by one long insertion is named after that contig
        case = dict(case, order=order[0])
    for c in order:
        dec = models.chain_decompose(nodes, links, named[c])
        if not (dec["shape"] in ("chain", "single") and dec.get("oriented") and dec.get("monotone")
                and len(dec["scaffold_sn"]) <= 1):
            # outside the statement (no articulation point / end element without rank-0 segment): not judged
            return core.Result(False, ["excluded:" + dec["shape"]])
    req = "" if case.get("default_order") else case["order"]  # "" = the option is not given
    with core.workdir() as d:
        res, files = ordergfa.run_order(d, case["gfa"], req, case["by_chrom"], sub="o1", via=case.get("via", "api"))
        core.check(res[0] == "ok", "order_gfa failed: %s", res)
        tags = collect_tags(files, case["by_chrom"], order)
        res2, files2 = ordergfa.run_order(d, case["gfa2"], req, case["by_chrom"], sub="o2", via=case.get("via", "api"))
        core.check(res2[0] == "ok", "order_gfa failed on the permuted file with stale tags: %s", res2)
        tags2 = collect_tags(files2, case["by_chrom"], order)
    want_nodes = set()
    for c in order:
        want_nodes |= set(named[c])
    core.check(set(tags) == want_nodes, "tagged nodes %s, nodes of the requested chromosomes %s",
               sorted(set(tags) ^ want_nodes)[:6], len(want_nodes))
    nontrivial, classes = judge(nodes, links, named, order, tags)
    diff = {n: (tags[n], tags2.get(n)) for n in tags if tags[n] != tags2.get(n)}
    core.check(not diff and set(tags) == set(tags2),
               "BO/NO depend on the line order / stale tags: %s", dict(list(diff.items())[:4]))
    for l in links:
        pass
    if any(l[1] != l[3] for l in links):
        classes.add("inverted_link")
    so_ = [d["so"] for d in nodes.values() if d["sr"] == 0]
    if so_ and len(str(min(so_))) != len(str(max(so_))) and min(so_) > 0:
        classes.add("reference_offsets_cross_a_power_of_ten")
    classes.add("by_chrom" if case["by_chrom"] else "complete")
    classes.add("via:" + case.get("via", "api"))
    if case.get("real_window"):
        classes.add("real_graph_window")
    if case.get("default_order"):
        classes.add("default_chromosome_order")
    return core.Result(nontrivial, sorted(classes))


DEFAULT_ORDER = ["chr%d" % i for i in range(1, 23)] + ["chrX", "chrY", "chrM"]


def default_order_cases():
    """Graphs with exactly the 25 default chromosomes, run WITHOUT --chromosome_order (documented default:
    chr1,...,chr22,chrX,chrY,chrM), S lines of the chromosomes in a shuffled order."""
    import random

    for seed in (3, 4):
        rnd = random.Random(seed)
        lines, lines2 = [], []
        nid = 0
        for c in rnd.sample(DEFAULT_ORDER, len(DEFAULT_ORDER)):
            k = rnd.choice([1, 1, 5, 7])
            pos = 0
            ids = []
            for j in range(k):
                nid += 1
                n = "s%d" % nid
                ln = rnd.randint(2, 9)
                ids.append(n)
                lines.append("S\t%s\t*\tLN:i:%d\tSN:Z:%s\tSO:i:%d\tSR:i:0" % (n, ln, c, pos))
                pos += ln
            if k >= 5:
                # r0 - r1 =(bubble)= r3 - r4 ...: one alternative allele over the third segment
                nid += 1
                h = "s%d" % nid
                lines.append("S\t%s\t*\tLN:i:4\tSN:Z:HG01#1#%s_alt\tSO:i:0\tSR:i:1" % (h, c))
                for a, b in zip(ids, ids[1:]):
                    lines.append("L\t%s\t+\t%s\t+\t0M" % (a, b))
                lines.append("L\t%s\t+\t%s\t+\t0M" % (ids[1], h))
                lines.append("L\t%s\t+\t%s\t+\t0M" % (h, ids[3]))
        lines2 = list(lines)
        rnd.shuffle(lines2)
        for by in (False, True):
            for via in ("api", "cli"):
                yield {"gfa": "\n".join(lines) + "\n", "gfa2": "\n".join(lines2) + "\n", "order": ",".join(DEFAULT_ORDER),
                       "by_chrom": by, "via": via, "default_order": True}


def long_chain_case():
    """One chromosome whose bubble chain has about 1 300 elements (recursion depth, quadratic steps ... show only here)."""
    lines = []
    pos = 0
    prev = None
    nid = 0
    for k in range(650):
        nid += 1
        a = "s%d" % nid
        lines.append("S\t%s\t*\tLN:i:3\tSN:Z:chr1\tSO:i:%d\tSR:i:0" % (a, pos))
        pos += 3
        if prev:
            nid += 1
            r = "s%d" % nid
            nid += 1
            h = "s%d" % nid
            lines.append("S\t%s\t*\tLN:i:2\tSN:Z:chr1\tSO:i:%d\tSR:i:0" % (r, pos))
            pos += 2
            lines.append("S\t%s\t*\tLN:i:2\tSN:Z:alt%d\tSO:i:0\tSR:i:1" % (h, k))
            # prev -> (r | h) -> a   with the reference offsets increasing along prev, r, a
            lines[-3], lines[-2] = lines[-2], lines[-3]
            for x, y in ((prev, r), (r, a), (prev, h), (h, a)):
                lines.append("L\t%s\t+\t%s\t+\t0M" % (x, y))
        prev = a
    # fix offsets: recompute SO in chain order (prev, r, a ...)
    out, pos = [], 0
    order = []
    for l in lines:
        f = l.split("\t")
        if f[0] == "S" and f[4] == "SN:Z:chr1":
            order.append(f[1])
    # chain order of reference segments: s1, then for each k: r_k, a_k
    import re as _re

    ref_lines = {l.split("\t")[1]: l for l in lines if l.startswith("S") and "SN:Z:chr1" in l}
    ids = sorted(ref_lines, key=lambda x: int(x[1:]))
    seq = [ids[0]]
    rest = ids[1:]
    # ids were allocated as a_k (nid), then r_k, h_k -> a_k < r_k; the walk visits r_k before a_k
    i = 0
    while i < len(rest):
        a_k = rest[i]
        r_k = rest[i + 1] if i + 1 < len(rest) else None
        if r_k is not None:
            seq += [r_k, a_k]
            i += 2
        else:
            seq.append(a_k)
            i += 1
    newso = {}
    for n in seq:
        ln = int(_re.search(r"LN:i:(\d+)", ref_lines[n]).group(1))
        newso[n] = pos
        pos += ln
    text = []
    for l in lines:
        f = l.split("\t")
        if f[0] == "S" and f[1] in newso:
            f = [x if not x.startswith("SO:i:") else "SO:i:%d" % newso[f[1]] for x in f]
        text.append("\t".join(f))
    return "\n".join(text) + "\n"


def enumerations(tier, shard, nshards):
    if shard == 1 or nshards == 1:
        def longc():
            import random

            t = long_chain_case()
            l2 = t.rstrip("\n").split("\n")
            random.Random(3).shuffle(l2)
            yield {"gfa": t, "gfa2": "\n".join(l2) + "\n", "order": "chr1", "by_chrom": False, "via": "api"}

        yield ("one chromosome with a chain of about 1 300 elements", longc(), True)
    if shard == 0:
        yield ("default chromosome order: 25 chromosomes, --chromosome_order omitted, two renderings x by_chrom x api/cli",
               default_order_cases(), True)
    if tier != "thorough" or shard != 0:
        return

    def gen():
        from vf import realgraph

        g = realgraph.load()
        text = g["text"]
        # the shipped file is already ordered: its BO/NO tags act as stale tags for the first rendering
        lines = text.rstrip("\n").split("\n")
        import random

        random.Random(7).shuffle(lines)
        yield {"gfa": text, "gfa2": "\n".join(lines) + "\n", "order": "chr1", "by_chrom": False, "real_window": [0, len(g["elements"])]}

    yield ("the whole real graph tests/data/large-graph-chr1.gfa.gz (90 015 segments), as shipped and with shuffled lines", gen(), True)
