"""C05 - view --region returns exactly the records of the nodes under the region."""

from hypothesis import strategies as st

from vf import core, idx, models
from vf.props import c04

ID = "C05"
LEVEL = "exploration"
LEVEL_TEXT = (
    "Generated-input search over indexed GAFs and region lists whose boundaries are drawn preferentially at node starts, "
    "ends-1 and ends (inside one node, spanning many, over unaligned nodes, in gaps of haplotype contigs); oracle = C04's "
    "selection oracle on the set of nodes whose stable interval intersects the closed region. Non-termination is decided by "
    "a deterministic line-event budget on gaftools/cli/view.py, not by the clock."
)
LEVEL_NOTE = "Region = closed 0-based interval [a,b] (from the quantifier 0<=a<=b<contig length and the code's own q_s in [start,end) test). Index built by the real `gaftools index`."
TECHNIQUE = "property-based testing (Hypothesis) with an interval-overlap oracle reduced to the --node oracle; step-count criterion for non-termination"
RULE = (
    "Hypothesis-generated rGFA + indexed GAF (as C04) and 4 region lists of 1-4 regions CONTIG:a-b with 0<=a<=b<contig "
    "extent over any contig of the graph, boundaries biased to node starts / ends-1 / ends. view -r (with and without "
    "--format) must equal the records traversing any node n with SN=contig, SO<=b, SO+LN>a, once each, in file order; empty "
    "=> 'No alignments found'; a call exceeding 1000*(index keys+10) line events inside view.py counts as non-termination. "
    "Non-trivial = a region spanning >=2 nodes, or with a boundary on a node boundary, or covering an unaligned node, or "
    ">=2 regions. Distinct by SHA-1 of the case."
    " Later additions: the same interval text on two contigs, a region given twice, contig names with commas, "
    "an index path that held another index."
)
ASSUMPTIONS = ["regions are closed intervals [a,b]; a=b is one base"]


def budget(tier):
    if tier == "quick":
        return {"examples": 300, "shards": 2}
    return {"examples": 2000, "shards": 16}


@st.composite
def region(draw, g):
    contigs = {}
    for n, d in g["nodes"].items():
        contigs.setdefault(d["sn"], []).append((d["so"], d["so"] + d["ln"]))
    c = draw(st.sampled_from(sorted(contigs)))
    segs = sorted(contigs[c])
    extent = segs[-1][1]
    marks = set()
    for s, e in segs:
        marks |= {s, e - 1, e, max(s - 1, 0)}
    marks = sorted(m for m in marks if 0 <= m < extent)

    def point():
        if draw(st.integers(0, 3)):
            return draw(st.sampled_from(marks))
        return draw(st.integers(0, extent - 1))

    a, b = point(), point()
    if a > b:
        a, b = b, a
    return "%s:%d-%d" % (c, a, b)


@st.composite
def strategy_(draw, tier):
    g, case = draw(idx.indexed_file(tier, max_records=20))
    case.pop("_twice")
    case["regions"] = [draw(st.lists(region(g), min_size=1, max_size=4 if k else 1)) for k in range(4)]
    # the same interval text on another contig (chr1:10-50 and chr2:10-50 are different regions), and a region given twice
    extents = {}
    for n, d in g["nodes"].items():
        extents[d["sn"]] = max(extents.get(d["sn"], 0), d["so"] + d["ln"])
    for regs in case["regions"][1:]:
        if draw(st.integers(0, 2)) == 0:
            c0, iv = regs[0].rsplit(":", 1)
            b0 = int(iv.split("-")[1])
            others = sorted(c for c, e in extents.items() if c != c0 and b0 < e)
            if others:
                regs.insert(draw(st.integers(0, len(regs))), "%s:%s" % (draw(st.sampled_from(others)), iv))
            else:
                regs.append(regs[0])
    case["via"] = draw(st.sampled_from(["api", "api", "cli", "cli_stdout"]))
    return case


def strategy(tier):
    return strategy_(tier)


def region_nodes(nodes, reg):
    c, iv = reg.rsplit(":", 1)
    a, b = [int(x) for x in iv.split("-")]
    return {n for n, d in nodes.items() if d["sn"] == c and d["so"] <= b and d["so"] + d["ln"] > a}


def run_case(case):
    nodes, _ = models.nodes_from_gfa_text(case["gfa"])
    lines = case["gaf"]
    trav = [idx.traversed(nodes, l) for l in lines]
    aligned = set().union(*trav) if trav else set()
    fmt = "unstable" if case["stable"] else "stable"
    classes = set()
    nontrivial = False
    via = case.get("via", "api")
    classes.add("via:" + via)
    with core.workdir() as d:
        gaf_path, table = idx.materialize(d, case)
        gfa_path = d + "/g.gfa"
        r = idx.build_index(gaf_path, gfa_path, d + "/in.gvi", stale=len(case["gaf"]) % 3 == 1)
        core.check(r[0] == "ok", "index failed: %s", r)
        limit = 1000 * (len(aligned) + 10)
        res, whole = idx.run_view(d, gaf_path, gfa_path, d + "/conv.txt", fmt=fmt)
        core.check(res[0] == "ok" and whole is not None and len(whole) == len(lines),
                   "whole-file view --format %s failed: %s", fmt, res)
        for qi, regs in enumerate(case["regions"]):
            under = set()
            for rg in regs:
                under |= region_nodes(nodes, rg)
            ords = [i for i, t in enumerate(trav) if t & under]
            what = "view -r " + " -r ".join(regs)
            res, out = idx.run_view(d, gaf_path, gfa_path, d + "/r%d.txt" % qi, regions=regs, index=d + "/in.gvi",
                                    step_limit=limit, via=via)
            core.check(res[0] != "steplimit", "%s does not terminate (more than %d line events in view.py)", what, limit)
            c04.check_selection(what, res, out, [idx.expected_plain(lines[i]) for i in ords])
            res, out = idx.run_view(d, gaf_path, gfa_path, d + "/rf%d.txt" % qi, regions=regs, index=d + "/in.gvi",
                                    fmt=fmt, step_limit=limit * 20, via=via)
            core.check(res[0] != "steplimit", "%s --format does not terminate", what)
            c04.check_selection(what + " --format " + fmt, res, out, [whole[i] for i in ords])
            for rg in regs:
                rn = region_nodes(nodes, rg)
                c, iv = rg.rsplit(":", 1)
                a, b = [int(x) for x in iv.split("-")]
                if len(rn) >= 2:
                    classes.add("region_spans>=2_nodes")
                    nontrivial = True
                if rn - aligned:
                    classes.add("region_covers_unaligned_node")
                    nontrivial = True
                if not rn:
                    classes.add("region_in_gap")
                bounds = set()
                for n, dd in nodes.items():
                    if dd["sn"] == c:
                        bounds |= {dd["so"], dd["so"] + dd["ln"], dd["so"] + dd["ln"] - 1}
                if a in bounds or b in bounds:
                    classes.add("boundary_on_node_boundary")
                    nontrivial = True
                if nodes and any(dd["sn"] == c and dd["sr"] != 0 for dd in nodes.values()):
                    classes.add("haplotype_contig_region")
            if len(regs) >= 2:
                classes.add(">=2_regions")
                nontrivial = True
            if not ords:
                classes.add("nothing_found")
    classes |= set(idx.file_classes(case, table))
    return core.Result(nontrivial, sorted(classes))


def enumerations(tier, shard, nshards):
    if shard != 0:
        return

    def gen():
        # more than 100 aligned nodes under one region (thresholds on the number of nodes are invisible to small graphs)
        for stable in (False, True):
            g, case = idx.big_file_case(31, 700, stable, n_ref=160)
            ext = max(d["so"] + d["ln"] for d in g["nodes"].values() if d["sn"] == "chr1")
            case["regions"] = [["chr1:0-%d" % (ext - 1)], ["chr1:%d-%d" % (ext // 3, ext - 2)], ["chr1:0-0", "chr1:%d-%d" % (ext - 1, ext - 1)],
                               ["HG01#1#ctg0:0-5"]]
            yield case
        # a reference built on a region: the contig name itself contains ':' and '-'
        g, case = idx.big_file_case(32, 60, False, n_ref=12, contig="chr6:28510120-33480577")
        case["regions"] = [["chr6:28510120-33480577:0-9"], ["chr6:28510120-33480577:5-40", "HG01#1#ctg1:100-101"],
                           ["chr6:28510120-33480577:1000-2000"], ["chr6:28510120-33480577:3-3"]]
        yield case

    yield ("regions over 160 aligned nodes (stable and unstable GAF), and a contig whose name contains ':' and '-'", gen(), True)
