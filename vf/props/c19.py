"""C19 - stat reports numbers that match their definitions."""

import re
from fractions import Fraction

from hypothesis import strategies as st

from vf import core

ID = "C19"
LEVEL = "exploration"
LEVEL_TEXT = (
    "Generated-input search over GAF files (tp:A P/S/I/absent, MAPQ incl. 0, several records per read, CIGAR runs "
    "around the 50-bp threshold) with an exact-rational recomputation of every reported figure and a permutation "
    "metamorphic re-run. Exploration fits: the quantifier is 'every GAF in every order' and the oracle is exact."
)
LEVEL_NOTE = "Trusts the oracle's reading of the definitions in the property statement; 'average mapping quality' and 'perfect alignments' are not judged."
TECHNIQUE = "property-based testing (Hypothesis) with an exact-rational reference computation + permutation metamorphic relation"
RULE = (
    "Hypothesis-generated GAF text of 1-40 records (reads with 1-4 records, names with comments, tp:A in {P,S,I,absent}, "
    "MAPQ in {0,1..60,255}, CIGARs over =XID with run lengths around 50, at least one primary record), drawn record order; "
    "run_stat with/without --cigar; oracle = exact recomputation, second permutation must give the same report. "
    "Non-trivial = file has a secondary-by-tag record, a secondary-by-MAPQ record and a read with >=2 primary records; "
    "distinct by SHA-1 of the case."
    " Later additions: UUID read names and names differing only in case, soft/hard clips, N and P operations."
)
ASSUMPTIONS = [
    "printed averages are compared with the exact rational within 5.1e-4 (3 printed decimals); between permutations within 1.1e-3",
    "files without any primary record are outside the statement (averages are 0/0)",
]


def budget(tier):
    if tier == "quick":
        return {"examples": 1200, "shards": 2}
    return {"examples": 8000, "shards": 16}


@st.composite
def cigar(draw):
    runs = draw(st.integers(1, 7))
    ops = []
    last = None
    for _ in range(runs):
        op = draw(st.sampled_from([c for c in "=XID" if c != last]))
        n = draw(st.sampled_from([1, 2, 7, 49, 50, 51, 120]))
        ops.append((n, op))
        last = op
    return ops


@st.composite
def strategy_(draw, tier):
    nreads = draw(st.integers(1, 8))
    lines = []
    special = draw(st.integers(0, 4)) == 0
    for r in range(nreads):
        name = "read%d" % r
        if special and r < 2:
            name = ("plumless", "buckeroo")[r]  # two names with the same CRC-32: tables must be keyed by the name itself
        elif special and r in (2, 3):
            # ONT-style UUID names; names are compared as strings (case matters, nothing is normalised)
            name = ("0f8fad5b-d9cb-469f-a165-70867728950e", "0F8FAD5B-D9CB-469F-A165-70867728950E")[r - 2]
        elif special and r in (4, 5):
            name = ("Read7", "read7")[r - 4]
        comment = draw(st.sampled_from(["", "", " runid=abc ch=4", " 1:N:0"]))
        qlen = draw(st.integers(60, 400))
        for k in range(draw(st.integers(1, 4))):
            ops = draw(cigar())
            matches = sum(n for n, o in ops if o == "=")
            block = sum(n for n, _ in ops)
            qs = draw(st.integers(0, 30))
            qe = draw(st.integers(qs + 1, qlen))
            if draw(st.integers(0, 4)) == 0:
                # a perfect end-to-end alignment: identity 1.0 and map ratio 1.0
                ops = [(draw(st.sampled_from([30, 50, 120])), "=")]
                matches = block = ops[0][0]
                qs, qe = 0, qlen
            tp = draw(st.sampled_from(["P", "P", "S", "I", None]))
            mapq = draw(st.sampled_from([0, 0, 1, 17, 60, 60, 255]))
            tags = []
            if draw(st.booleans()):
                tags.append("NM:i:%d" % draw(st.integers(0, 50)))
            if tp:
                tags.append("tp:A:" + tp)
            if draw(st.integers(0, 4)) == 0:
                # aligners report their own identity / divergence; the figures of stat are defined on the columns
                tags.append(draw(st.sampled_from(["id:f:0.9815", "id:f:1", "id:f:0.5", "dv:f:0.0185", "NM:i:0"])))
            style = draw(st.sampled_from(["=X", "=X", "=X", "M", "none"]))
            if style == "M":
                # the M-style CIGAR of the same alignment: =/X runs become M runs
                mops = []
                for n_, o_ in ops:
                    o2 = "M" if o_ in "=X" else o_
                    if mops and mops[-1][1] == o2:
                        mops[-1] = (mops[-1][0] + n_, o2)
                    else:
                        mops.append((n_, o2))
                cg = "cg:Z:" + "".join("%d%s" % x for x in mops)
            else:
                cg = "cg:Z:" + "".join("%d%s" % x for x in ops)
            if style != "none" and draw(st.integers(0, 4)) == 0:
                # soft/hard clips, reference skips and padding are CIGAR operations too; they are not among the counted events
                body = cg[5:]
                body = draw(st.sampled_from(["", "5S", "3H", "3H5S"])) + body
                runs_ = re.findall(r"\d+[=XIDM]", body)
                if len(runs_) >= 2 and draw(st.booleans()):
                    k_ = draw(st.integers(1, len(runs_) - 1))
                    head_ = "".join(re.findall(r"^(?:\d+[SH])*", body))
                    body = head_ + "".join(runs_[:k_]) + draw(st.sampled_from(["500N", "2P", "12N"])) + "".join(runs_[k_:])
                cg = "cg:Z:" + body + draw(st.sampled_from(["", "7S", "2H"]))
            if style != "none":
                tags.insert(draw(st.integers(0, len(tags))), cg)
            plen = block + 10
            lines.append("\t".join([name + comment, str(qlen), str(qs), str(qe), "+", ">s1>s2", str(plen), "3",
                                    str(3 + sum(n for n, o in ops if o in "=XD") if any(o in "=XD" for _, o in ops) else 4),
                                    str(matches), str(block), str(mapq)] + tags))
    order = draw(st.permutations(range(len(lines))))
    lines = [lines[i] for i in order]
    if draw(st.integers(0, 4)) == 0:
        # the same alignment listed twice in a row is two records
        k_ = draw(st.integers(0, len(lines) - 1))
        lines.insert(k_, lines[k_])
    if draw(st.integers(0, 5)) == 0:
        # a file that starts with a dozen records without a CIGAR and has records with one further down
        plain = [l for l in lines if "\tcg:Z:" not in l]
        if plain:
            head = []
            for j in range(12):
                f = plain[j % len(plain)].split("\t")
                head.append("\t".join(f))
            lines = head + [l for l in lines if "\tcg:Z:" in l] + plain
    if draw(st.integers(0, 4)) == 0:
        # the comment after the read name may differ from record to record (pass=1, pass=2): it is not part of the name
        out_ = []
        for j, l in enumerate(lines):
            f = l.split("\t")
            f[0] = f[0].split(" ")[0] + draw(st.sampled_from(["", " pass=%d" % j, " ch=%d x" % (j % 3)]))
            out_.append("\t".join(f))
        lines = out_
    # make sure one record is primary
    if not any(is_primary(l) for l in lines):
        f = lines[0].split("\t")
        f[11] = "60"
        f = [x for x in f if not x.startswith("tp:A:")]
        lines[0] = "\t".join(f)
    perm2 = list(draw(st.permutations(range(len(lines)))))
    return {"gaf": lines, "perm": perm2, "via": draw(st.sampled_from(["api", "api", "cli", "cli_stdout"]))}


def strategy(tier):
    return strategy_(tier)


def is_primary(line):
    f = line.split("\t")
    tp = [x[5:] for x in f[12:] if x.startswith("tp:A:")]
    if tp and tp[0] != "P":
        return False
    return int(f[11]) > 0


def expected(lines, cigar_stat):
    total = len(lines)
    prim = [l.split("\t") for l in lines if is_primary(l)]
    exp = {"total": total, "primary": len(prim), "secondary": total - len(prim)}
    reads = {}
    aligned = 0
    for f in prim:
        name = f[0].split(" ")[0]
        ident = Fraction(int(f[9]), int(f[10]))
        ratio = Fraction(int(f[3]) - int(f[2]), int(f[1]))
        aligned += int(f[9])
        if name in reads:
            reads[name] = (max(reads[name][0], ident), max(reads[name][1], ratio))
        else:
            reads[name] = (ident, ratio)
    exp["reads"] = len(reads)
    exp["aligned"] = aligned
    exp["identity"] = sum(v[0] for v in reads.values()) / len(reads)
    exp["ratio"] = sum(v[1] for v in reads.values()) / len(reads)
    if cigar_stat:
        cnt = {o: [0, 0] for o in "DIX="}
        for f in prim:
            cgs = [x[5:] for x in f[12:] if x.startswith("cg:Z:")]
            if not cgs:
                continue
            for n, o in re.findall(r"(\d+)([=XIDM])", cgs[0]):
                if o == "M":
                    continue
                cnt[o][0] += 1
                if int(n) >= 50:
                    cnt[o][1] += 1
        exp["cigar"] = cnt
    return exp


REPORT = {
    "total": r"Total alignments: (\d+)",
    "primary": r"\tPrimary: (\d+)",
    "secondary": r"\tSecondary: (\d+)",
    "reads": r"Reads with at least one alignment: (\d+)",
    "aligned": r"Total aligned bases: (\d+)",
    "identity": r"Average highest sequence identity: ([0-9.eE+-]+)",
    "ratio": r"Average highest map ratio: ([0-9.eE+-]+)",
}
CIG_REPORT = {
    "D": r"Total deletion regions: (\d+) \((\d+) >50bps\)",
    "I": r"Total insertion regions: (\d+) \((\d+) >50bps\)",
    "X": r"Total substitution regions: (\d+) \((\d+) >50bps\)",
    "=": r"Total match regions: (\d+) \((\d+) >50bps\)",
}


def run_stat(lines, cigar_stat, via="api"):
    from gaftools.cli.stat import run_stat as rs

    with core.workdir() as d:
        core.write_text(d + "/in.gaf", "".join(l + "\n" for l in lines))
        if via == "api":
            res = core.call(rs, d + "/in.gaf", cigar_stat=cigar_stat, output=d + "/out.txt")
        elif via == "cli":
            res = core.cli(["stat", d + "/in.gaf", "-o", d + "/out.txt"] + (["--cigar"] if cigar_stat else []))
        else:
            res = core.cli(["stat", d + "/in.gaf"] + (["--cigar"] if cigar_stat else []), capture_stdout=True)
            if res[0] == "ok":
                core.write_text(d + "/out.txt", res[1])

        try:
            text = core.read_text(d + "/out.txt")
        except OSError:
            text = ""
    core.check(res[0] == "ok", "stat failed: %s", res)
    rep = {}
    for k, pat in REPORT.items():
        m = re.search(pat, text)
        core.check(m is not None, "report lacks %r: %r", k, text)
        rep[k] = m.group(1)
    if cigar_stat:
        rep["cigar"] = {}
        for k, pat in CIG_REPORT.items():
            m = re.search(pat, text)
            core.check(m is not None, "report lacks cigar line %r: %r", k, text)
            rep["cigar"][k] = [int(m.group(1)), int(m.group(2))]
    return rep


def compare(rep, exp, cigar_stat):
    for k in ("total", "primary", "secondary", "reads", "aligned"):
        core.check(int(rep[k]) == exp[k], "%s: reported %s, definition gives %s", k, rep[k], exp[k])
    core.check(int(rep["total"]) == int(rep["primary"]) + int(rep["secondary"]), "total != primary + secondary")
    for k in ("identity", "ratio"):
        core.check(abs(Fraction(rep[k]) - exp[k]) <= Fraction(51, 100000),
                   "%s: reported %s, definition gives %s", k, rep[k], float(exp[k]))
    if cigar_stat:
        for o in "DIX=":
            core.check(rep["cigar"][o] == exp["cigar"][o], "cigar %s runs: reported %s, definition gives %s",
                       o, rep["cigar"][o], exp["cigar"][o])


def run_case(case):
    lines = case["gaf"]
    reports = []
    for cigar_stat in (False, True):
        rep = run_stat(lines, cigar_stat, via=case.get("via", "api"))
        compare(rep, expected(lines, cigar_stat), cigar_stat)
        reports.append(rep)
    l2 = [lines[i] for i in case["perm"]]
    rep2 = run_stat(l2, True)
    for k in ("total", "primary", "secondary", "reads", "aligned"):
        core.check(rep2[k] == reports[1][k], "%s changes with record order: %s vs %s", k, reports[1][k], rep2[k])
    core.check(rep2["cigar"] == reports[1]["cigar"], "cigar counts change with record order")
    for k in ("identity", "ratio"):
        core.check(abs(float(rep2[k]) - float(reports[1][k])) <= 1.1e-3, "%s changes with record order: %s vs %s",
                   k, reports[1][k], rep2[k])
    # classes
    classes = ["via:" + case.get("via", "api")]
    fs = [l.split("\t") for l in lines]
    sec_tag = any(any(x.startswith("tp:A:") and x[5:] != "P" for x in f[12:]) for f in fs)
    sec_mapq = any(int(f[11]) == 0 for f in fs)
    names = [f[0].split(" ")[0] for f, l in zip(fs, lines) if is_primary(l)]
    multi = len(set(names)) < len(names)
    if sec_tag:
        classes.append("secondary_by_tag")
    if sec_mapq:
        classes.append("secondary_by_mapq0")
    if multi:
        classes.append("read_with_2+_primary")
    if any(" " in f[0] for f in fs):
        classes.append("name_with_comment")
    if any(not any(x.startswith("tp:A:") for x in f[12:]) for f in fs):
        classes.append("tp_absent")
    if any(not any(x.startswith("cg:Z:") for x in f[12:]) for f in fs):
        classes.append("record_without_cigar")
    if any(any(x.startswith("cg:Z:") and "M" in x for x in f[12:]) for f in fs):
        classes.append("M_style_cigar")
    if any(f[9] == f[10] for f in fs):
        classes.append("matches==block")
    return core.Result(sec_tag and sec_mapq and multi, classes)


def enumerations(tier, shard, nshards):
    if shard != 0:
        return

    def big():
        # more than 100 000 records, plain text
        import random

        rnd = random.Random(19)
        lines = []
        for i in range(100003):
            m = rnd.choice([30, 50, 120])
            x = rnd.choice([0, 0, 1, 3])
            tp = rnd.choice(["P", "P", "S"])
            lines.append("r%d\t%d\t0\t%d\t+\t>s1\t500\t3\t%d\t%d\t%d\t%d\ttp:A:%s\tcg:Z:%d=%s" % (
                i % 60000, m + x + 5, m + x, 3 + m + x, m, m + x, rnd.choice([0, 60]), tp, m, ("%dX" % x) if x else ""))
        yield {"gaf": lines, "perm": list(range(len(lines))), "via": "api"}

    yield ("100 003 records (plain text)", big(), True)
