"""C13 - realign aborts with an error when a worker dies."""

import itertools
import os
import subprocess
import sys

from hypothesis import strategies as st

from vf import core, fakemp, realign_common as rc
from vf.props import c11

ID = "C13"
LEVEL = "fault_enumeration"
LEVEL_TEXT = (
    "Fault enumeration on the harness-owned platform of C11: for small configurations every (worker, death point, death "
    "kind, exit status) is enumerated and crossed with every schedule of bounded deviation from the eager one; Hypothesis "
    "adds generated inputs x cores x batch sizes x faults x schedules. Death kinds: Python-level unwinding inside the real "
    "worker function (its finally blocks run, what they put is delivered) and a hard kill after j delivered items. Oracle: "
    "the command ends with a non-zero SystemExit or an exception, never a normal return, never a hang (quiescence criterion). "
    "A real-process tier kills real workers (exception / os._exit / SIGKILL)."
)
LEVEL_NOTE = (
    "Trusted base: vf/fakemp.py platform and fault model. Not explored: a worker killed while its queue feeder thread holds "
    "the pipe write lock (inside a put) - it cannot be produced deterministically."
)
TECHNIQUE = "fault injection enumerated over (worker, death point, kind, status) x bounded-deviation schedules on a simulated multiprocessing platform, plus Hypothesis-generated fault/schedule pairs and real-process kills"
RULE = (
    "Enumeration: configurations <=3 records x cores 1-3 x batch 1-2; every worker w, every death point (exception while "
    "fetching record k=0..len(batch), incl. after the last result but before the sentinel; kill after j=0..len(batch) "
    "delivered items, with or without the queue write lock held by the dying worker), status in {-9,1,137}, x every schedule with <=1 (quick) / <=2 (thorough) deviations from eager. "
    "Hypothesis: C11's generated inputs + drawn fault + drawn schedule. Oracle: SystemExit(code!=0) or exception; a normal "
    "return or a hang is a violation. Non-trivial = >=2 workers with the faulty one not first, or a death between two "
    "delivered results. Distinct by SHA-1 of the case."
    " Later additions: realign to standard output, 90 KB of results per worker with one worker failing while "
    "the other is silent (pipe-capacity model at interpreter exit)."
)
ASSUMPTIONS = ["a death after the sentinel has been delivered is not a fault point of the batch"]


def budget(tier):
    if tier == "quick":
        return {"examples": 400, "shards": 2}
    return {"examples": 5000, "shards": 16}


@st.composite
def strategy_(draw, tier):
    case = draw(rc.realign_inputs(max_records=10))
    case["cores"] = draw(st.integers(1, 4))
    case["batch"] = draw(st.integers(1, 3))
    case["choices"] = draw(c11.schedule())
    nworkers = -(-len(case["gaf"]) // case["batch"])
    w = draw(st.integers(0, nworkers - 1))
    kind = draw(st.sampled_from(["exc", "kill", "kill_locked"]))
    point = draw(st.integers(0, case["batch"]))
    case["fault"] = [kind, w, point, draw(st.sampled_from([-9, 1, 137]))]
    case["kind"] = "sim"
    # the exit status must reflect the death whatever the output goes to (-o FILE or standard output)
    case["via"] = draw(st.sampled_from(["api", "api", "cli", "cli_stdout"]))
    return case


def strategy(tier):
    return strategy_(tier)


def run_real(case):
    with core.workdir() as d:
        core.write_text(d + "/g.gfa", case["gfa"])
        core.write_text(d + "/in.gaf", "".join(l + "\n" for l in case["gaf"]))
        core.write_text(d + "/reads.fa", case["fasta"])
        drv = os.path.join(os.path.dirname(os.path.dirname(os.path.abspath(__file__))), "real_fault_driver.py")
        p = rc.run_group([sys.executable, drv, core.REPO, d, case["fault"][0], str(case["cores"]), str(case["batch"]),
                          str(case["fault"][2])], 120)
        # a four-record job takes well under a second: two minutes without an exit status is a hang
        core.check(p is not None, "real processes: a worker died (%s) and realign did not terminate within 120 s", case["fault"][0])
        fired = os.path.exists(d + "/fault.fired")
        if not fired:
            return core.Result(False, ["real:fault_not_fired"])
        core.check(p.returncode != 0, "real processes: a worker died (%s) but realign returned normally (exit status 0)",
                   case["fault"][0])
    return core.Result(case["cores"] >= 2, ["real_processes", "real:" + case["fault"][0]])


def run_case(case):
    if case.get("kind") == "real":
        return run_real(case)
    fault = tuple(case["fault"])
    with core.workdir() as d:
        plat = fakemp.Platform(fakemp.Chooser(case["choices"]), fault=fault)
        res, text = rc.run_realign(case, d, platform=plat, sub="sim.gaf", via=case.get("via", "api"))
    if not plat.fault_fired:
        return core.Result(False, ["fault_not_fired:" + fault[0]])
    what = "worker %d dies (%s at %d, status %d), cores=%d batch=%d schedule=%s" % (
        fault[1], fault[0], fault[2], fault[3], case["cores"], case["batch"], case["choices"][:30])
    core.check(res[0] != "hang", "%s: realign hangs (keeps polling after all workers exited)", what)
    left = plat.hangs_at_exit()
    core.check(not left, "%s: realign ends (%s) but leaves worker(s) %s blocked for ever and not terminated: the "
               "interpreter's exit-time join of non-daemonic children never returns", what, res[0], left)
    nout = len(text.split("\n")) - 1 if text else 0
    core.check(res[0] != "ok", "%s: realign returned normally (reported success) with %d of %d records written",
               what, nout, len(case["gaf"]))
    if res[0] == "exit":
        core.check(res[1] not in (0, None), "%s: realign exited with status %r", what, res[1])
    cl = ["via:" + case.get("via", "api"), "kind:" + fault[0], "status:%d" % fault[3], "workers=%d" % min(len(plat.procs), 4), "ended:" + res[0]]
    p = plat.procs[fault[1]]
    between = 0 < p.delivered < len(p.args[0])
    if between:
        cl.append("death_between_two_results")
    if fault[1] > 0:
        cl.append("faulty_worker_not_first")
    if fault[2] >= len(p.args[0]):
        cl.append("death_after_last_result_before_sentinel")
    if plat.timeouts:
        cl.append("timeout")
    if plat.dead_locks and any(q.plat is plat for q in plat.dead_locks) and len(plat.procs) >= 2:
        cl.append("other_workers_blocked_on_dead_lock")
    nontrivial = (len(plat.procs) >= 2 and fault[1] > 0) or between
    return core.Result(nontrivial, cl)


def enumerations(tier, shard, nshards):
    k_max = 1 if tier == "quick" else 2
    configs = [(1, 1, 1), (2, 1, 1), (2, 2, 1), (2, 1, 2), (3, 2, 1), (3, 2, 2), (3, 3, 1)]
    idx = 0
    for nrec, cores, batch in configs:
        base = dict(c11.tiny_case(2, cores, batch))
        if nrec == 1:
            base = dict(c11.tiny_case(1, cores, batch))
        elif nrec == 3:
            base["gaf"] = c11.TINY_GAF + [c11.TINY_GAF[0].replace("ra\t", "rc\t")]
            base["fasta"] = c11.TINY_FASTA + ">rc\nGTACGTAAGGCA\n"
        nworkers = -(-nrec // batch)
        for w in range(nworkers):
            blen = min(batch, nrec - w * batch)
            for kind, point, status in itertools.product(("exc", "kill", "kill_locked"), range(blen + 1), (-9, 1, 137)):
                idx += 1
                if idx % nshards != shard:
                    continue
                fault = (kind, w, point, status)

                def run(chooser, base=base, fault=fault):
                    case = dict(base)
                    case["fault"] = list(fault)
                    with core.workdir() as d:
                        plat = fakemp.Platform(chooser, fault=fault)
                        rc.run_realign(case, d, platform=plat, sub="probe.gaf")
                    case["choices"] = [t[0] for t in chooser.trace]
                    return case

                gen, state = fakemp.bounded_deviation_schedules(run, k_max, max_runs=20000)
                yield ("fault %s x every schedule with <=%d deviations: %d record(s), cores=%d, batch=%d"
                       % (fault, k_max, nrec, cores, batch), gen, state)
    if shard == 0:
        def torn():
            # records of ~3 KB: a message of one record fits into the pipe; should results ever be sent batch-wise, a kill
            # in the middle of such a message leaves the parent blocked in recv for ever
            c = dict(c11.tiny_case(2, 2, 30))
            big = []
            fa = []
            for i in range(60):
                nm = "t%d" % i
                big.append(c11.TINY_GAF[i % 2].replace("ra\t", nm + "\t").replace("rb\t", nm + "\t") + "\tzq:Z:" + "k" * 3000)
                fa.append(">%s\n%s\n" % (nm, "GTACGTAAGGCA" if i % 2 == 0 else "GGCAATTAC"))
            c["gaf"], c["fasta"] = big, "".join(fa)
            for w in (0, 1):
                cc = dict(c)
                cc["fault"] = ["kill_mid_message", w, 0, -9]
                cc["choices"] = []
                yield cc
            # the same 90 KB per worker, one worker fails while the other is silent for some polls: after the abort the
            # survivor must not be left alive with more to deliver than the pipe holds (the exit-time join would never return)
            for fault in (["exc", 0, 0, 1], ["exc", 1, 5, 137], ["exc", 0, 29, 3], ["kill", 0, 3, -9], ["kill", 1, 0, -9]):
                for choices in ([], [0], [0, 0], [0] * 4, [0] * 8, [1] * 6, [0, 1, 0, 1, 0, 1], [2, 0, 0, 0], [0, 2, 0, 0, 2]):
                    cc = dict(c)
                    cc["fault"] = list(fault)
                    cc["choices"] = list(choices)
                    yield cc

        yield ("90 KB of results per worker: kill in the middle of a message larger than the pipe buffer (fires only if such messages "
               "exist); failures while the other worker is silent (survivor left with more than the pipe holds)", torn(), True)

        def real():
            for kind, cores in itertools.product(("exc", "exit", "kill", "term"), (1, 2)):
                c = dict(c11.tiny_case(2, cores, 1))
                c["gaf"] = c11.TINY_GAF + [c11.TINY_GAF[0].replace("ra\t", "rc\t"), c11.TINY_GAF[1].replace("rb\t", "rd\t")]
                c["fasta"] = c11.TINY_FASTA + ">rc\nGTACGTAAGGCA\n>rd\nGGCAATTAC\n"
                c["batch"] = 2
                c["kind"] = "real"
                c["fault"] = [kind, 0, 2, 0]
                yield c

        yield ("real multiprocessing: one worker dies at its 2nd record by exception / os._exit(3) / SIGKILL, cores 1-2",
               real(), True)
