"""C01 - coordinate conversion designates the same aligned locus."""

from hypothesis import strategies as st

from vf import idx, conv, core, gen_gaf, gen_graph, models

ID = "C01"
LEVEL = "exploration"
LEVEL_TEXT = (
    "Generated-input search: valid rGFAs (bubble chains, haplotype contigs with separated and abutting segments, "
    "inversions) x '+'-strand walk records with arbitrary offsets, converted in both directions by the real "
    "`view --format`; oracle spells path[start:end] from the graph sequences before and after. Exploration fits: the "
    "property quantifies over all graphs and walks and the spelling oracle is exact."
)
LEVEL_NOTE = "Trusts the speller in vf/models.py and that S->U inputs are produced by the model's own canonical stable form (not by gaftools)."
TECHNIQUE = "property-based testing (Hypothesis) with a sequence-spelling semantic oracle, both conversion directions"
RULE = (
    "Hypothesis-generated rGFA with sequences + 1-6 '+'-strand records over random walks (1-8 steps, forward/reverse, "
    "inversions, revisits) with arbitrary 0<=ps<pe<=len; direction U->S on those, direction S->U on the model's "
    "canonical stable form of the same records. Oracle per record: spelled locus (read orientation) identical before/after; "
    "output path-length field = total length of the output path (contig length for a bare rank-0 name); "
    "0<=start<end<=length; cg reversed iff the strand flipped, otherwise unchanged. "
    "Non-trivial = record path has >=2 nodes and one of: >=2 nodes merged into one interval, strand flip, haplotype contig "
    "with separated segments, >=3 consecutive reference nodes, revisit/mixed orientation. Distinct by SHA-1 of the case."
    " Later additions: reference contigs that are tiled but not one linked path, one-character / comma / '=' "
    "segment names, cs:Z and MD:Z among the optional fields, comment/header/path/walk and blank lines in the "
    "graph, haplotype contigs shared between chromosomes."
)
ASSUMPTIONS = [
    "'-'-strand unstable inputs and contig names containing ':' are outside the stated quantifier",
    "records are matched by read name (unique per file); record count/order is C02's claim",
]


def budget(tier):
    if tier == "quick":
        return {"examples": 1200, "shards": 2}
    return {"examples": 4000, "shards": 16}


@st.composite
def strategy_(draw, tier):
    g, recs = draw(conv.graph_and_records(canonical=False, max_records=6, tier=tier, real=True, real_with_seq=True))
    if len(recs) >= 2 and draw(st.booleans()):
        # a later record over (part of) the walk of an earlier one: state carried from record to record shows here
        i = draw(st.integers(0, len(recs) - 2))
        k = draw(st.integers(i + 1, len(recs) - 1))
        steps = [tuple(x) for x in recs[i]["steps"]]
        cut = draw(st.integers(0, len(steps) - 1))
        recs[k] = draw(gen_gaf.record(g, None, canonical=False, name=recs[k]["name"], steps=steps[cut:]))
    direction = draw(st.sampled_from(["u2s", "s2u"]))
    if direction == "u2s":
        lines = [gen_gaf.record_line(r) for r in recs]
    else:
        lines = [conv.stable_line(g["nodes"], r) for r in recs]
    extra = None
    if "real_window" not in g and draw(st.integers(0, 4)) == 0:
        # the graph went through order_gfa before: every S line carries BO and NO (conversion ignores them)
        from vf.props import c08

        extra = c08.tag_graph(g)
    return {"gfa": gen_graph.gfa_text(g, with_seq=True, order_seed=draw(st.integers(0, 99)), extra_tags=extra),
            **({"real_window": g["real_window"]} if "real_window" in g else {}),
            "gaf": lines, "dir": direction, "via": draw(st.sampled_from(["api", "api", "cli", "cli_stdout"]))}


def strategy(tier):
    return strategy_(tier)


def run_case(case):
    nodes, links = models.nodes_from_gfa_text(case["gfa"])
    bmap = models.base_map(nodes)
    fmt = "stable" if case["dir"] == "u2s" else "unstable"
    res, out = conv.view_convert(case["gfa"], case["gaf"], fmt, via=case.get("via", "api"))
    core.check(res[0] == "ok", "view --format %s failed: %s", fmt, res)
    core.check(out is not None, "view --format %s wrote no complete output", fmt)
    by_name = {}
    for l in out:
        by_name.setdefault(l.split("\t")[0], []).append(l)
    classes = set()
    nontrivial = False
    for inp in case["gaf"]:
        name = inp.split("\t")[0]
        if len(by_name.get(name, [])) != 1:
            continue
        outl = by_name[name][0]
        a = conv.locus(nodes, bmap, inp)
        core.check(len(outl.split("\t")) >= 12, "output line has fewer than 12 columns: %r", outl)
        try:
            b = conv.locus(nodes, bmap, outl)
        except (ValueError, KeyError, IndexError) as e:
            raise core.Violation("output record is not interpretable (%s): %r" % (e, outl))
        core.check(b is not None, "output path names unknown nodes: %r", outl)
        assert a and a["spelled"] is not None, "generator produced an invalid input record: %r" % inp
        core.check(b["spelled"] is not None, "output designates bases that do not exist: %r (from %r)", outl, inp)
        core.check(a["spelled"] == b["spelled"],
                   "aligned locus changed: input %r spells %s, output %r spells %s", inp, a["spelled"], outl, b["spelled"])
        core.check(b["plen"] == b["implied_len"], "output path length field %d but the path %s has length %s",
                   b["plen"], b["path"], b["implied_len"])
        core.check(0 <= b["ps"] < b["pe"] <= b["plen"], "output offsets out of range: %r", outl)
        if a["cg"] is not None:
            want = models.reverse_cigar(a["cg"]) if a["strand"] != b["strand"] else a["cg"]
            core.check(b["cg"] == want, "cigar %s -> %s but strand %s -> %s (expected %s)",
                       a["cg"], b["cg"], a["strand"], b["strand"], want)
        else:
            core.check(b["cg"] is None, "a cigar was invented: %r", outl)
        # classification on the unstable side of the pair
        u = a if case["dir"] == "u2s" else b
        steps = models.parse_path(u["path"])
        feats = conv.path_features(nodes, steps)
        classes |= {case["dir"] + ":" + f for f in feats}
        if "multi_node" in feats and feats & {"merged_interval", "strand_flip", "hap_separated_segments",
                                             "ref_run>=3", "revisit", "mixed_orientation"}:
            nontrivial = True
    if "real_window" in case:
        classes.add("real_graph_window")
    return core.Result(nontrivial, sorted(classes))


def enumerations_small(tier, shard, nshards):
    def gen():
        g, recs = conv.small_space_records(canonical=False, max_steps=3 if tier == "quick" else 5)
        gfa = gen_graph.gfa_text(g, with_seq=True, order_seed=5)
        chunk = 250
        k = 0
        for direction in ('u2s', 's2u'):
            for i in range(0, len(recs), chunk):
                k += 1
                if k % nshards != shard:
                    continue
                part = recs[i:i + chunk]
                if direction.startswith("u2s"):
                    lines = [gen_gaf.record_line(r) for r in part]
                else:
                    lines = [conv.stable_line(g["nodes"], r) for r in part]
                yield {"gfa": gfa, "gaf": lines, "dir": direction, "via": "api"}

    yield ("exhaustive: every walk of 1-3 (quick) / 1-5 (thorough) steps over a fixed 8-segment graph (reference run, abutting and separated haplotype "
           "segments, inversion, hairpin, tandem duplication, deletion) x boundary offsets, both directions", gen(), True)


def enumerations(tier, shard, nshards):
    yield from enumerations_small(tier, shard, nshards)

    def long_reference():
        # a reference contig cut into 90 segments (interval searches bisect over more than a handful of segments): walks of
        # 1-6 consecutive reference segments and walks through the three alleles, every start offset inside the first segment
        # and end offset inside the last one; both directions (the stable form of an all-reference walk is the bare contig)
        g, case = idx.big_file_case(17, 1, False, n_ref=90)
        nodes = g["nodes"]
        lm = models.LinkModel(g["links"])
        refs = ["s%d" % i for i in range(1, 91)]
        recs = []
        k = 0
        for a in range(0, 90, 1):
            for span in (1, 2, 3, 6):
                ids = refs[a:a + span]
                if len(ids) < span:
                    continue
                for rev in (False, True):
                    steps = [("<", n) for n in reversed(ids)] if rev else [(">", n) for n in ids]
                    if not lm.is_walk(steps):
                        continue
                    lens = [nodes[n]["ln"] for _, n in steps]
                    total = sum(lens)
                    for ps in sorted({0, lens[0] - 1, lens[0] // 2}):
                        for pe in sorted({total, total - lens[-1] + 1}):
                            if not ps < pe:
                                continue
                            k += 1
                            n_ = pe - ps
                            recs.append({"name": "L%d" % k, "qlen": n_ + 2, "qs": 1, "qe": n_ + 1, "strand": "+", "steps": [list(x) for x in steps],
                                         "plen": total, "ps": ps, "pe": pe, "matches": n_, "block": n_, "mapq": 60, "cg": "%d=" % n_,
                                         "tags": [], "cg_pos": 0})
        gfa = gen_graph.gfa_text(g, with_seq=True, order_seed=7)
        chunk = 400
        j = 0
        for direction in ("u2s", "s2u"):
            for i in range(0, len(recs), chunk):
                j += 1
                if j % nshards != shard:
                    continue
                part = recs[i:i + chunk]
                lines = [gen_gaf.record_line(r) for r in part] if direction == "u2s" else [conv.stable_line(nodes, r) for r in part]
                yield {"gfa": gfa, "gaf": lines, "dir": direction, "via": "api"}

    yield ("a reference contig of 90 segments: walks of 1, 2, 3 and 6 consecutive segments in both orientations x boundary offsets, "
           "both directions", long_reference(), True)
