"""C08 - sort orders alignments by (BO, NO, start) as a total order."""

import itertools
import random
import re

from hypothesis import strategies as st

from vf import core, gen_gaf, gen_graph, models

ID = "C08"
LEVEL = "exploration"
RULE = (
    "Hypothesis-generated BO/NO-tagged rGFA (tags from the independent chain oracle, a drawn subset of nodes "
    "untagged with BO=NO=-1) + 2-14 walk records with forced near-ties (shared anchor nodes, small offsets), "
    "in a drawn order; oracle: recomputed key (BO,NO,start) of the anchor must be non-decreasing along the output, "
    "tagged equal keys in input order, untagged anchors last; ~30% of cases re-sorted under two more permutations. "
    "Plus exhaustive permutations of small subsets of a fixed near-tie pool. "
    "Non-trivial = >=3 records and (an equal-BO/different-NO pair presented in descending order, or an untagged anchor "
    "among tagged ones); distinct by SHA-1 of the case."
    " Later additions: scaffold nodes that are not rank 0, integer tags with an explicit plus sign, neighbour "
    "records sharing walk and start, 70 000 records."
)
LEVEL_TEXT = (
    "Generated-input search: no counterexample to the total order among the generated graphs/record multisets and "
    "input orders, plus complete enumeration of all permutations of small near-tie subsets. Exploration is the right "
    "level: the property quantifies over all inputs and permutations and has an exact, cheap oracle (recomputed key)."
)
LEVEL_NOTE = "Trusts the oracle's reading of 'anchor' (first/last node by scaffold-orientation majority) and Hypothesis' generator coverage as reported in the evidence class table."
TECHNIQUE = "property-based testing (Hypothesis) with a recomputed-sort-key oracle + exhaustive permutation enumeration + metamorphic permutation re-runs"
ASSUMPTIONS = [
    "anchor = last path node iff tagged scaffold nodes (NO=0) traversed '<' outnumber those traversed '>', else first node",
    "order among records anchored on untagged nodes is not judged (all exact ties)",
]


def budget(tier):
    if tier == "quick":
        return {"examples": 700, "shards": 2}
    return {"examples": 5000, "shards": 16}


# ------------------------------------------------------------------------------------------


def tag_graph(g, untag=(), no_scale=1, bo_scale=1, plus=False):
    """extra S tags BO/NO from the chain oracle; nodes in `untag` get -1/-1. Scaling keeps the order but gives
    values with different digit counts (9 vs 10 vs 100)."""
    extra = {}
    bo = 0
    for c in g["chroms"]:
        dec = models.chain_decompose(g["nodes"], g["links"], c["nodes"])
        if dec["shape"] in ("chain", "single"):
            m, bo = models.expected_bo_no(dec, bo)
        else:
            # one block without articulation point: tag it as one bubble
            m = {n: (bo, i + 1) for i, n in enumerate(sorted(c["nodes"]))}
            bo += 1
        for n, (b, o) in m.items():
            # an integer may be written with an explicit sign ([-+]?[0-9]+)
            extra[n] = ["BO:i:%s%d" % ("+" if plus and b % 2 == 0 else "", b * bo_scale), "NO:i:%s%d" % ("+" if plus and o % 2 == 1 else "", o * no_scale)]
    for n in untag:
        extra[n] = ["BO:i:-1", "NO:i:-1"]
    return extra


@st.composite
def strategy_(draw, tier):
    g = draw(gen_graph.rgfa(max_chroms=2, max_elements=4))
    ids = list(g["nodes"])
    untag = draw(st.lists(st.sampled_from(ids), max_size=max(1, len(ids) // 4), unique=True))
    extra = tag_graph(g, untag, no_scale=draw(st.sampled_from([1, 1, 4, 7])), bo_scale=draw(st.sampled_from([1, 1, 3, 25])),
                      plus=draw(st.integers(0, 5)) == 0)
    if draw(st.integers(0, 4)) == 0:
        # scaffold nodes (NO = 0) need not be rank 0: a chromosome whose backbone is a haplotype contig
        c = draw(st.sampled_from(g["chroms"]))
        for n_ in c["nodes"]:
            if g["nodes"][n_]["sr"] == 0:
                g["nodes"][n_]["sr"] = 2
                g["nodes"][n_]["sn"] = "alt#2#" + c["name"]
    lm = models.LinkModel(g["links"])
    pool = draw(st.lists(st.sampled_from(ids), min_size=1, max_size=3, unique=True))
    n = draw(st.integers(2, 14))
    lines = []
    for i in range(n):
        sp = pool if draw(st.integers(0, 4)) else None
        rec = draw(gen_gaf.record(g, lm, name="r%d" % i, max_len=5, start_pool=sp, tags=False))
        if draw(st.booleans()):
            # small offsets: many equal starts
            total = rec["plen"]
            rec["ps"] = min(draw(st.integers(0, 2)), total - 1)
            rec["pe"] = max(rec["ps"] + 1, min(rec["pe"], total))
        if i > 0 and draw(st.integers(0, 5)) == 0:
            # the neighbour of the previous record: same walk, same start, another end (or same end, another start)
            prev = prev_rec
            rec = dict(prev, name="r%d" % i)
            if draw(st.booleans()) and prev["pe"] - prev["ps"] > 1:
                rec["pe"] = draw(st.integers(prev["ps"] + 1, prev["pe"] - 1))
            elif prev["pe"] - prev["ps"] > 1:
                rec["ps"] = draw(st.integers(prev["ps"] + 1, prev["pe"] - 1))
        prev_rec = rec
        if draw(st.integers(0, 5)) == 0:
            rec["strand"] = "-"  # minigraph writes '-' strand records; sort keys are path coordinates, the strand is irrelevant
        lines.append(gen_gaf.record_line(rec))
    perms = []
    if draw(st.integers(0, 9)) < 3:
        for _ in range(2):
            perms.append(list(draw(st.permutations(range(n)))))
    return {
        "gfa": gen_graph.gfa_text(g, with_seq=False, extra_tags=extra),
        "gaf": lines,
        "perms": perms,
        "via": draw(st.sampled_from(["api", "api", "api", "cli"])),
    }


def strategy(tier):
    return strategy_(tier)


# ------------------------------------------------------------------------------------------
# oracle


def parse_tagged_gfa(text):
    nodes = {}
    for line in text.splitlines():
        f = line.split("\t")
        if f[0] != "S":
            continue
        d = {}
        for t in f[3:]:
            k, ty, v = t.split(":", 2)
            d[k] = int(v) if ty == "i" else v
        nodes[f[1]] = d
    return nodes


def sort_key(nodes, line):
    """(key, anchor info) recomputed from the definition."""
    f = line.split("\t")
    steps = models.parse_path(f[5])
    fwd = rev = 0
    for o, n in steps:
        d = nodes[n]
        if d["BO"] == -1 or d["NO"] == -1:
            continue
        if d["NO"] != 0:
            continue
        if o == ">":
            fwd += 1
        else:
            rev += 1
    if fwd < rev:
        anchor = steps[-1][1]
        start = int(f[6]) - int(f[8])
        side = "rev"
    else:
        anchor = steps[0][1]
        start = int(f[7])
        side = "fwd"
    d = nodes[anchor]
    if d["BO"] == -1:
        return (1,), side, anchor
    return (0, d["BO"], d["NO"], start), side, anchor


def run_sort_on(lines, gfa_text, via="api"):
    from gaftools.cli.sort import run_sort

    with core.workdir() as d:
        core.write_text(d + "/g.gfa", gfa_text)
        core.write_text(d + "/in.gaf", "".join(l + "\n" for l in lines))
        if via == "cli":
            res = core.cli(["sort", d + "/in.gaf", d + "/g.gfa", "--outgaf", d + "/out.gaf"])
        else:
            res = core.call(run_sort, d + "/g.gfa", d + "/in.gaf", outgaf=d + "/out.gaf")
        try:
            out = core.read_text(d + "/out.gaf").splitlines()
        except OSError:
            out = None
    return res, out


def judge(nodes, lines, res, out):
    name_to_idx = {l.split("\t")[0]: i for i, l in enumerate(lines)}
    core.check(out is not None and (res[0] == "ok" or len(out) > 0 or not lines),
               "sort produced no output (%s)", res)
    seq = []
    for ol in out:
        nm = ol.split("\t")[0]
        if nm in name_to_idx:
            i = name_to_idx[nm]
            seq.append((sort_key(nodes, lines[i])[0], i, nm))
    for (k1, i1, n1), (k2, i2, n2) in zip(seq, seq[1:]):
        core.check(k1 <= k2, "output not ordered: %s key=%s before %s key=%s", n1, k1, n2, k2)
        if k1 == k2 and k1 != (1,):
            core.check(i1 < i2, "records with equal key %s not in input order: %s (input #%d) before %s (input #%d)",
                       k1, n1, i1, n2, i2)
    return [s[0] for s in seq]


def run_case(case):
    nodes = parse_tagged_gfa(case["gfa"])
    lines = case["gaf"]
    res, out = run_sort_on(lines, case["gfa"], via=case.get("via", "api"))
    keys = judge(nodes, lines, res, out)
    for perm in case.get("perms", []):
        pl = [lines[i] for i in perm]
        r2, o2 = run_sort_on(pl, case["gfa"])
        k2 = judge(nodes, pl, r2, o2)
        core.check(k2 == keys, "key sequence differs between two input permutations: %s vs %s", keys, k2)
    # classification
    info = [sort_key(nodes, l) for l in lines]
    ks = [k for k, _, _ in info]
    classes = []
    desc_no = False
    for i in range(len(ks) if len(ks) <= 2000 else 0):
        for j in range(i + 1, len(ks)):
            a, b = ks[i], ks[j]
            if len(a) == 4 and len(b) == 4 and a[1] == b[1] and a[2] > b[2]:
                desc_no = True
    untag_mixed = any(k == (1,) for k in ks) and any(k != (1,) for k in ks)
    ties = len(set(ks)) < len(ks)
    if desc_no:
        classes.append("equalBO_descNO_pair")
    if untag_mixed:
        classes.append("untagged_among_tagged")
    if ties:
        classes.append("exact_ties")
    if any(s == "rev" for _, s, _ in info):
        classes.append("reverse_anchor")
    if any(l.split("\t")[4] == "-" for l in lines):
        classes.append("minus_strand_record")
    if any(len(k) == 4 and k[2] >= 10 for k in ks):
        classes.append("NO>=10")
    if case.get("perms"):
        classes.append("with_permutation_reruns")
    if any(d.get("NO") == 0 and d.get("SR") != 0 for d in nodes.values()):
        classes.append("scaffold_node_not_rank0")
    if len(lines) > 65536:
        classes.append("records>65536")
        return core.Result(True, classes)
    nontrivial = len(lines) >= 3 and (desc_no or untag_mixed)
    return core.Result(nontrivial, classes)


# ------------------------------------------------------------------------------------------
# exhaustive sub-space: all permutations of small subsets of a fixed near-tie pool

POOL_GFA = "\n".join(
    [
        "S\ts1\t*\tLN:i:5\tSN:Z:chr1\tSO:i:0\tSR:i:0\tBO:i:0\tNO:i:0",
        "S\ts2\t*\tLN:i:4\tSN:Z:chr1\tSO:i:5\tSR:i:0\tBO:i:1\tNO:i:2",
        "S\ts3\t*\tLN:i:4\tSN:Z:h#1\tSO:i:0\tSR:i:1\tBO:i:1\tNO:i:1",
        "S\ts4\t*\tLN:i:6\tSN:Z:chr1\tSO:i:9\tSR:i:0\tBO:i:2\tNO:i:0",
        "S\ts5\t*\tLN:i:3\tSN:Z:h#2\tSO:i:0\tSR:i:2\tBO:i:-1\tNO:i:-1",
        "S\ts6\t*\tLN:i:3\tSN:Z:chr1\tSO:i:15\tSR:i:0\tBO:i:3\tNO:i:0",
        "L\ts1\t+\ts2\t+\t0M",
        "L\ts1\t+\ts3\t+\t0M",
        "L\ts2\t+\ts4\t+\t0M",
        "L\ts3\t+\ts4\t+\t0M",
        "L\ts4\t+\ts5\t+\t0M",
        "L\ts5\t+\ts6\t+\t0M",
        "L\ts4\t+\ts6\t+\t0M",
    ]
) + "\n"

POOL = [
    "p0\t20\t0\t9\t+\t>s1>s2\t9\t0\t9\t9\t9\t60",
    "p1\t20\t0\t8\t+\t>s2>s4\t10\t0\t8\t8\t8\t60",
    "p2\t20\t0\t8\t+\t>s3>s4\t10\t0\t8\t8\t8\t60",
    "p3\t20\t0\t7\t+\t>s3>s4\t10\t1\t8\t7\t7\t60",
    "p4\t20\t0\t3\t+\t>s5\t3\t0\t3\t3\t3\t60",
    "p5\t20\t0\t8\t+\t<s4<s2\t10\t2\t10\t8\t8\t60",
    "p6\t20\t0\t8\t+\t>s3>s4\t10\t0\t8\t8\t8\t60",
    "p7\t20\t0\t6\t+\t>s5>s6\t6\t0\t6\t6\t6\t60",
]


def enumerations(tier, shard, nshards):
    max_k = 4 if tier == "quick" else 5

    def gen():
        idx = 0
        for k in range(2, max_k + 1):
            for sub in itertools.combinations(range(len(POOL)), k):
                for perm in itertools.permutations(sub):
                    idx += 1
                    if idx % nshards != shard:
                        continue
                    yield {"gfa": POOL_GFA, "gaf": [POOL[i] for i in perm], "perms": []}

    yield ("all permutations of every 2..%d-record subset of the 8-record near-tie pool" % max_k, gen(), True)

    if shard == 0:
        def big():
            import random

            rnd = random.Random(8)
            n = 70000
            order = [rnd.randrange(len(POOL)) for _ in range(n)]
            yield {"gfa": POOL_GFA, "gaf": [POOL[k].replace("p%d\t" % k, "u%d\t" % i, 1) for i, k in enumerate(order)], "perms": []}

        yield ("70 000 records (more than 2^16) drawn from the near-tie pool in pseudo-random order", big(), True)

        def wide():
            # one bubble with 66 000 alleles (NO runs beyond 2^16): alignments anchored on low- and high-numbered inner nodes
            lines = ["S\tq0\t*\tLN:i:4\tSN:Z:chr1\tSO:i:0\tSR:i:0\tBO:i:0\tNO:i:0"]
            for k in range(1, 66001):
                lines.append("S\ta%d\t*\tLN:i:3\tSN:Z:h%d\tSO:i:0\tSR:i:1\tBO:i:1\tNO:i:%d" % (k, k, k))
            lines.append("S\tq1\t*\tLN:i:4\tSN:Z:chr1\tSO:i:4\tSR:i:0\tBO:i:2\tNO:i:0")
            for k in (1, 2, 3, 65535, 65536, 65537, 65540, 65999, 66000):
                lines += ["L\tq0\t+\ta%d\t+\t0M" % k, "L\ta%d\t+\tq1\t+\t0M" % k]
            gaf = []
            for i, k in enumerate((65537, 3, 66000, 65536, 1, 65535, 2, 65999, 65540)):
                gaf.append("w%d\t9\t0\t3\t+\t>a%d\t3\t0\t3\t3\t3\t60" % (i, k))
            gaf.append("w9\t9\t0\t7\t+\t>q0>a65536\t7\t1\t7\t6\t6\t60")
            yield {"gfa": "\n".join(lines) + "\n", "gaf": gaf, "perms": [[9, 8, 7, 6, 5, 4, 3, 2, 1, 0]]}

        yield ("one bubble with 66 000 inner nodes (NO beyond 2^16)", wide(), True)
