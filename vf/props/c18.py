"""C18 - order_gfa isolates components it cannot order."""

import random

from hypothesis import strategies as st

from vf import core, gen_graph, models, ordergfa
from vf.props import c06

ID = "C18"
LEVEL = "exploration"
LEVEL_TEXT = (
    "Generated-input search over multi-chromosome rGFAs in which a drawn subset of components is broken into non-chain "
    "shapes (tip on a scaffold node, tip inside a bubble, three articulation points on a cycle without inner nodes, two "
    "chromosomes joined through a haplotype node), at every position of --chromosome_order, by_chrom on/off, per-shard "
    "PYTHONHASHSEED. Oracle: the run completes normally and its output files equal, name for name and byte for byte, those "
    "of a run that does not request the non-chain components (metamorphic 'as if absent')."
)
LEVEL_NOTE = "Whether a component is chain-shaped is decided by the oracle from blocks and articulation points (vf/models.chain_decompose), not by the generator's intent."
TECHNIQUE = "property-based testing (Hypothesis) with a metamorphic differential (request with vs. without the non-chain components) and an independent chain-shape oracle"
RULE = (
    "Hypothesis-generated rGFA of 2-4 chromosomes; each is a linear bubble chain, then a drawn non-empty subset is broken by "
    "one of four breakers; --chromosome_order is a drawn permutation of a subset containing >=1 chain-shaped and (when "
    "available) >=1 non-chain component. Oracle: run(O) returns normally; files(run(O)) == files(run(O minus non-chain)). "
    "Non-trivial = a non-chain component that is requested and is not the last entry of the order. Distinct by SHA-1 of the case."
    " Later additions: chromosomes of a single segment, requests made only of non-chain components, "
    "components without any articulation point (normal completion and untouched neighbours required, nothing "
    "more), a chromosome named 'complete'; requests that cannot be written (component name with a comma) are "
    "excluded."
)
ASSUMPTIONS = [
    "components with no articulation point at all are claimed by neither C06 nor C18 and are not requested",
    "chain-shaped components whose scaffold nodes carry different SN (end-to-end joins) are outside the statement",
]


def HASHSEEDS(tier):
    return [0, 3] if tier == "quick" else list(range(16))


def budget(tier):
    if tier == "quick":
        return {"examples": 400, "shards": 2}
    return {"examples": 4000, "shards": 16}


def three_artic_cycle(b, name):
    chrom = {"name": name, "nodes": [], "ref": [], "haps": [], "len": 0, "shape": "3artic", "bubbles": 0, "features": []}
    r0 = b.add_ref(chrom)
    a = b.add_ref(chrom)
    m = b.add_ref(chrom)
    c = b.add_ref(chrom)
    r4 = b.add_ref(chrom)
    for x, y in ((r0, a), (a, m), (m, c), (c, r4), (a, c)):
        b.link(x, "+", y, "+")
    t = b.add_hap(chrom)
    b.link(m, "+", t, "+")
    b.chroms.append(chrom)
    return chrom


def ring(b, name, draw):
    """A component that is biconnected as a whole (circular chrM with an allele, a lone bubble, two linked segments): it has no
    articulation point at all."""
    chrom = {"name": name, "nodes": [], "ref": [], "haps": [], "len": 0, "shape": "ring", "bubbles": 0, "features": []}
    k = draw(st.integers(2, 4))
    rs = [b.add_ref(chrom) for _ in range(k)]
    for x, y in zip(rs, rs[1:]):
        b.link(x, "+", y, "+")
    if k >= 3:
        b.link(rs[0], "+", rs[-1], "+") if draw(st.booleans()) else b.link(rs[-1], "+", rs[0], "+")
    b.chroms.append(chrom)
    return chrom


@st.composite
def strategy_(draw, tier):
    rnd = random.Random(draw(st.integers(0, 2**30)))
    b = gen_graph._Builder(draw, rnd, ["s", "utg"], draw(st.sampled_from([0, 7, 96])), 6)
    nchrom = draw(st.integers(2, 4))
    names = draw(st.permutations(["chr1", "chr2", "chrX", "chr10_alt", "chrM", "chr2.mat", "chr2.pat", "complete"]))[:nchrom]
    plans = []
    for i, name in enumerate(names):
        plan = draw(st.sampled_from(["good", "tip_scaffold", "tip_bubble", "3artic", "join", "ring"]))
        if i == 0:
            plan = "good"
        plans.append(plan)
        if plan == "3artic":
            three_artic_cycle(b, name)
        elif plan == "ring":
            ring(b, name, draw)
        elif plan == "good":
            # also chromosomes of a single segment (no bubble at all)
            b.chain(name, draw(st.sampled_from([0, 2, 3, 4, 5])))
        else:
            b.chain(name, draw(st.integers(2, 5)))
    b.fix_majority()
    g = {"nodes": b.nodes, "links": b.links}
    merged_away = set()
    for i, (name, plan) in enumerate(zip(names, plans)):
        chrom = b.chroms[i]
        if plan == "tip_scaffold":
            dec = models.chain_decompose(g["nodes"], g["links"], chrom["nodes"])
            if dec.get("art"):
                s = draw(st.sampled_from(sorted(dec["art"])))
                t = b.add_hap(chrom)
                b.link(s, draw(st.sampled_from("+-")), t, "+")
                # the tip may be a chain of several haplotype segments (its inner ones are articulation points off the reference)
                for _ in range(draw(st.sampled_from([0, 0, 1, 2]))):
                    t2 = b.add_hap(chrom, abut_to=t)
                    b.link(t, "+", t2, "+")
                    t = t2
        elif plan == "tip_bubble":
            dec = models.chain_decompose(g["nodes"], g["links"], chrom["nodes"])
            inner = sorted(set(chrom["nodes"]) - set(dec.get("art", ())))
            x = draw(st.sampled_from(inner))
            t = b.add_hap(chrom)
            b.link(x, "+", t, "+")
            for _ in range(draw(st.sampled_from([0, 0, 1, 2]))):
                t2 = b.add_hap(chrom, abut_to=t)
                b.link(t, "+", t2, "+")
                t = t2
        elif plan == "join":
            other = b.chroms[draw(st.integers(0, i - 1))]
            if len(other["nodes"]) != len(chrom["nodes"]) and other["name"] not in merged_away and name not in merged_away:
                x = draw(st.sampled_from(chrom["nodes"][1:-1] or chrom["nodes"]))
                y = draw(st.sampled_from(other["nodes"][1:-1] or other["nodes"]))
                h = b.add_hap(chrom)
                b.link(x, "+", h, "+")
                b.link(h, "+", y, "+")
    b.fix_majority()
    stale = None
    if draw(st.integers(0, 2)) == 0:
        # the graph was ordered before: every S line already carries BO/NO tags
        stale = {n: ["BO:i:%d" % draw(st.integers(0, 40)), "NO:i:%d" % draw(st.integers(0, 4))] for n in g["nodes"]}
    text = gen_graph.gfa_text(g, with_seq=False, order_seed=draw(st.integers(0, 999)), extra_tags=stale)
    return {"gfa": text, "order_seed": draw(st.integers(0, 10**6)), "by_chrom": draw(st.integers(0, 1)) == 1,
            "via": draw(st.sampled_from(["api", "api", "cli"]))}


def strategy(tier):
    return strategy_(tier)


def classify(case):
    nodes, links = models.nodes_from_gfa_text(case["gfa"])
    named = c06.name_components(nodes, links)
    if named is None:
        return None
    status = {}
    why = {}
    for name, comp in named.items():
        dec = models.chain_decompose(nodes, links, comp)
        if dec["shape"] == "nonchain":
            status[name] = "bad"
            w = dec.get("why", "")
            why[name] = "block_without_inner_nodes_has_3+_articulation_points" if w.startswith("block without") else "scaffold_graph_branches"
            if len({nodes[n]["sn"] for n in comp if nodes[n]["sr"] == 0}) >= 2:
                why[name] = "two_chromosomes_joined"
        elif dec["shape"] == "single" or (dec["shape"] == "chain" and dec["oriented"] and dec["monotone"]
                                          and len(dec["scaffold_sn"]) == 1):
            status[name] = "good"
        elif dec["shape"] == "noartic" and len(comp) >= 2:
            # biconnected as a whole: whether that is "a chain of one bubble" or "not a chain" the statement leaves open;
            # what it does not leave open is that the command completes and the other chromosomes are untouched
            status[name] = "ring"
        else:
            status[name] = "unclaimed"
    status["_why"] = why
    return status


def run_case(case):
    status = classify(case)
    if status is None:
        return core.Result(False, ["excluded:majority_tie"])
    why = status.pop("_why")
    good = sorted(n for n, s in status.items() if s == "good")
    bad = sorted(n for n, s in status.items() if s == "bad")
    if not good:
        return core.Result(False, ["excluded:no_chain_component"])
    if any("," in n for n in status):
        # --chromosome_order is a comma-separated list: a component named after a contig with a comma cannot be requested
        return core.Result(False, ["excluded:component_name_with_comma"])
    rnd = random.Random(case["order_seed"])
    order = list(good[: rnd.randint(1, len(good))]) + list(bad[: rnd.randint(1, len(bad))] if bad else [])
    rnd.shuffle(order)
    order2 = [c for c in order if status[c] == "good"]
    with core.workdir() as d:
        if case["order_seed"] % 3 == 0:
            # re-run into an output directory that already holds the result of an earlier run
            ordergfa.run_order(d, case["gfa"], ",".join(order2), case["by_chrom"], sub="o1", via=case.get("via", "api"))
            rerun = True
        else:
            rerun = False
        res, files = ordergfa.run_order(d, case["gfa"], ",".join(order), case["by_chrom"], sub="o1", via=case.get("via", "api"))
        core.check(res[0] == "ok", "order_gfa with a non-chain component in the request (%s; non-chain: %s) did not complete normally: %s",
                   order, [c for c in order if status[c] == "bad"], res)
        res2, files2 = ordergfa.run_order(d, case["gfa"], ",".join(order2), case["by_chrom"], sub="o2", via=case.get("via", "api"))
        core.check(res2[0] == "ok", "order_gfa on the chain-shaped chromosomes only (%s) failed: %s", order2, res2)
        rings = sorted(n for n, s_ in status.items() if s_ == "ring")
        if rings:
            # requested last and with --by-chrom, so that neither its files nor its BO numbers can touch the others
            r4, files4 = ordergfa.run_order(d, case["gfa"], ",".join(order2 + rings[:1]), True, sub="o4", via=case.get("via", "api"))
            core.check(r4[0] == "ok", "order_gfa with a component without any articulation point (%s) last in the request did not "
                       "complete normally: %s", rings[0], r4)
            r5, files5 = ordergfa.run_order(d, case["gfa"], ",".join(order2), True, sub="o5", via=case.get("via", "api"))
            core.check(r5[0] == "ok", "order_gfa --by-chrom on the chain-shaped chromosomes only (%s) failed: %s", order2, r5)
            for fn, content in files5.items():
                core.check(files4.get(fn) == content, "%s changes when the component %s (no articulation point) is requested after it",
                           fn, rings[0])
        if bad and case["order_seed"] % 2 == 0:
            # only components that cannot be ordered are requested: reported and skipped, nothing written, normal completion
            only_bad = [c for c in order if status[c] == "bad"]
            res3, files3 = ordergfa.run_order(d, case["gfa"], ",".join(only_bad), case["by_chrom"], sub="o3", via=case.get("via", "api"))
            core.check(res3[0] == "ok", "order_gfa with only non-chain components in the request (%s) did not complete normally: %s",
                       only_bad, res3)
            for fn, content in files3.items():
                core.check(not any(l.startswith("S\t") for l in content.split("\n")),
                           "only non-chain components requested (%s) but %s contains segments", only_bad, fn)
    core.check(sorted(files) == sorted(files2), "output files %s, but %s when the non-chain chromosomes are not requested",
               sorted(files), sorted(files2))
    for name in files:
        if files[name] != files2[name]:
            a = files[name].split("\n")
            b_ = files2[name].split("\n")
            k = next((i for i, (x, y) in enumerate(zip(a, b_)) if x != y), min(len(a), len(b_)))
            raise core.Violation("%s differs from the run without the non-chain chromosomes (order %s vs %s); first difference at line %d: %r vs %r"
                                 % (name, order, order2, k + 1, a[k] if k < len(a) else None, b_[k] if k < len(b_) else None))
    cl = ["by_chrom" if case["by_chrom"] else "complete", "via:" + case.get("via", "api")] + (["rerun_into_same_outdir"] if rerun else [])
    if rings:
        cl.append("component_without_articulation_point_requested")
    pos = [i for i, c in enumerate(order) if status[c] == "bad"]
    nontrivial = any(i < len(order) - 1 for i in pos)
    for c in order:
        if status[c] == "bad":
            cl.append("shape:" + why[c])
    if pos:
        cl.append("bad_requested")
    if nontrivial:
        cl.append("bad_not_last")
    if pos and pos[0] == 0:
        cl.append("bad_first")
    if not bad:
        cl.append("no_bad_component")
    if "\tBO:i:" in case["gfa"]:
        cl.append("input_has_stale_BO_NO")
    return core.Result(nontrivial, cl)
