"""C03 - the view index lists exactly the records that traverse each node."""

import pickle

from hypothesis import strategies as st

from vf import core, idx, models

ID = "C03"
LEVEL = "exploration"
LEVEL_TEXT = (
    "Generated-input search over rGFAs x GAF files (unstable and model-stable, incl. bare contigs on both strands and "
    "haplotype contigs with non-adjacent segments; plain text and BGZF with generated block cuts, lines of widely varying "
    "length) with a definition-level 'record traverses node' oracle and offset resolution through the real reader."
)
LEVEL_NOTE = "Trusts the BGZF writer in vf/bgzf.py (validated against pysam/gzip) and the traversal definition in vf/idx.traversed."
TECHNIQUE = "property-based testing (Hypothesis) over files and BGZF block layouts with a definition-level oracle; offsets resolved through GAF.read_line"
RULE = (
    "Hypothesis-generated rGFA + GAF of 1-30 records (line lengths 60 B - 3 KB, thorough: >64 KiB), unstable or stable, plain "
    "or BGZF with 0-6 drawn block cuts (cuts inside lines, empty trailing block); run `index`, load the pickle, resolve every "
    "listed offset with GAF.read_line. For every graph node: the set of records its offsets resolve to == the records that "
    "traverse it by definition; each offset returns precisely that record (12 columns); keys are (id,SN,SO,SO+LN); nodes "
    "without records have no key (the extra 'ref_contig' entry of the pickle is not part of the statement and not judged). Non-trivial = >=2 records, a node with >=2 records and a node "
    "with none, and for BGZF >=2 data blocks with a record starting beyond the first. Distinct by SHA-1 of the case."
    " Later additions: an index path that already holds another index, BGZF blocks ending exactly at record "
    "ends, gzip header bytes other than htslib's, an incompressible BGZF file (compressed size > 64 KiB; > 1 "
    "MiB thorough), read names with quotes and non-ASCII letters."
)
ASSUMPTIONS = ["duplicate offsets inside one node's list are not judged here (set semantics; exactly-once output is C04's claim)"]


def budget(tier):
    if tier == "quick":
        return {"examples": 400, "shards": 2}
    return {"examples": 2500, "shards": 16}


@st.composite
def strategy_(draw, tier):
    g, case = draw(idx.indexed_file(tier))
    case.pop("_twice")
    case["via"] = draw(st.sampled_from(["api", "api", "cli"]))
    return case


def strategy(tier):
    return strategy_(tier)


def run_case(case):
    from gaftools.gaf import GAF

    nodes, _ = models.nodes_from_gfa_text(case["gfa"])
    lines = case["gaf"]
    with core.workdir() as d:
        gaf_path, table = idx.materialize(d, case)
        r = idx.build_index(gaf_path, d + "/g.gfa", d + "/out.gvi", via=case.get("via", "api"), stale=len(case["gaf"]) % 3 == 0)
        core.check(r[0] == "ok", "index failed: %s", r)
        with open(d + "/out.gvi", "rb") as f:
            ind = pickle.load(f)
        core.check(isinstance(ind, dict), "index is not a dict")
        expected = {n: set() for n in nodes}
        cols = []
        for i, l in enumerate(lines):
            cols.append(idx.twelve(l))
            for n in idx.traversed(nodes, l):
                expected[n].add(i)
        by_cols = {}
        for i, c in enumerate(cols):
            by_cols.setdefault(tuple(c), []).append(i)
        keys = [k for k in ind if k != "ref_contig"]
        seen_nodes = set()
        reader = GAF(gaf_path)
        try:
            for k in keys:
                core.check(isinstance(k, tuple) and len(k) == 4, "malformed index key %r", k)
                nid = k[0]
                core.check(nid in nodes, "index key for unknown node %r", k)
                dn = nodes[nid]
                core.check(k == (nid, dn["sn"], dn["so"], dn["so"] + dn["ln"]),
                           "index key %r, expected %r", k, (nid, dn["sn"], dn["so"], dn["so"] + dn["ln"]))
                core.check(nid not in seen_nodes, "two index keys for node %s", nid)
                seen_nodes.add(nid)
                got = set()
                for off in ind[k]:
                    rr = core.call(reader.read_line, off)
                    core.check(rr[0] == "ok" and rr[1] is not None,
                               "offset %r listed for node %s does not resolve to a record: %s", off, nid, rr)
                    c = tuple(idx.alignment_columns(rr[1]))
                    core.check(c in by_cols, "offset %r listed for node %s returns something that is not a record of the file: %r",
                               off, nid, c)
                    got.add(by_cols[c][0])
                # an empty entry for a node no record traverses satisfies the "if and only if" just as well as no entry
                core.check(got == expected[nid], "node %s: index lists records %s, records traversing it are %s",
                           nid, sorted(got), sorted(expected[nid]))
            for n, e in expected.items():
                if e:
                    core.check(n in seen_nodes, "node %s is traversed by records %s but has no index entry", n, sorted(e))
        finally:
            reader.close()
    cl = idx.file_classes(case, table) + ["via:" + case.get("via", "api")]
    multi = any(len(e) >= 2 for e in expected.values())
    none = any(len(e) == 0 for e in expected.values())
    nontrivial = len(lines) >= 2 and multi and none
    if table is not None:
        nontrivial = nontrivial and "record_starts_after_block1" in cl
    if case["stable"]:
        if any("\t-\t" in l for l in lines):
            cl.append("stable_minus_strand")
        if any((">" not in l.split("\t")[5] and "<" not in l.split("\t")[5]) for l in lines):
            cl.append("stable_bare_contig")
    return core.Result(nontrivial, cl)


def enumerations(tier, shard, nshards):
    sizes = [1200] if tier == "quick" else [1000, 3000, 8000]

    def gen():
        k = 0
        for n in sizes:
            for stable in (False, True):
                k += 1
                if k % nshards != shard:
                    continue
                g, case = idx.big_file_case(n + 7, n, stable)
                yield case

    yield ("large files (%s records, BGZF in 20 KB blocks, stable and unstable)" % sizes, gen(), True)

    def huge():
        # an uncompressed GAF of more than 4 MiB (readers that work in large chunks have their first boundary here)
        if shard == 0:
            g, case = idx.big_file_case(97, 30000, False, pad=260)
            case["bgzf"] = None
            yield case

    yield ("one plain-text GAF of 30 000 records (> 4 MiB)", huge(), True)

    def incompressible():
        # base64-like quality strings do not compress: the BGZF file itself grows beyond 64 KiB (and, thorough, 1 MiB), so that
        # the compressed-offset part of the virtual offsets needs more than 16 bits
        if shard == (1 % nshards):
            g, case = idx.big_file_case(5, 1500 if tier == "quick" else 16000, True, pad=160, noise=True)
            yield case

    yield ("one BGZF GAF with incompressible optional fields (compressed size > 64 KiB; > 1 MiB in the thorough tier)",
           incompressible(), True)

    def long_segments():
        # segments of 60 kb and 250 kb: stable records that lie in the middle of a long segment, end in it, or span it
        if shard == (1 % nshards):
            gfa = ("S\ts1\t*\tLN:i:1000\tSN:Z:chr1\tSO:i:0\tSR:i:0\nS\ts2\t*\tLN:i:60000\tSN:Z:chr1\tSO:i:1000\tSR:i:0\n"
                   "S\ts3\t*\tLN:i:500\tSN:Z:chr1\tSO:i:61000\tSR:i:0\nS\ts4\t*\tLN:i:250000\tSN:Z:chr1\tSO:i:61500\tSR:i:0\n"
                   "S\th1\t*\tLN:i:40000\tSN:Z:HG01#1#ctg\tSO:i:5000\tSR:i:1\n"
                   "L\ts1\t+\ts2\t+\t0M\nL\ts2\t+\ts3\t+\t0M\nL\ts3\t+\ts4\t+\t0M\nL\ts1\t+\th1\t+\t0M\nL\th1\t+\ts3\t+\t0M\n")
            spans = [(20000, 25000), (33000, 47000), (500, 1500), (60990, 61010), (100, 200), (61400, 200000), (150000, 150001),
                     (999, 1001), (0, 311500), (311000, 311500), (16384, 16385), (32768, 49152)]
            lines = []
            for i, (a, b) in enumerate(spans):
                n = b - a
                strand = "+-"[i % 2]
                lines.append("t%d\t%d\t0\t%d\t%s\tchr1\t311500\t%d\t%d\t%d\t%d\t60\tcg:Z:%d=" % (i, n, n, strand, a, b, n, n, n))
                lines.append("u%d\t%d\t0\t%d\t+\t>chr1:%d-%d\t%d\t0\t%d\t%d\t%d\t60\tcg:Z:%d=" % (i, n, n, a, b, n, n, n, n, n))
            lines.append("v0\t300\t0\t300\t+\t>HG01#1#ctg:20000-20300\t300\t0\t300\t300\t300\t60\tcg:Z:300=")
            lines.append("v1\t600\t0\t600\t+\t>chr1:700-1000>HG01#1#ctg:5000-5300\t600\t0\t600\t600\t600\t60\tcg:Z:600=")
            for bg in (None, {"cuts": [700, 1500], "empty": False}):
                yield {"gfa": gfa, "gaf": lines, "bgzf": bg, "stable": True, "crlf": False, "via": "api"}

    yield ("stable records inside, across and at the ends of segments of 40-250 kb", long_segments(), True)
