"""C07 - order_gfa and GFA I/O preserve the graph."""

import collections
import os

from hypothesis import strategies as st

from vf import core, gen_graph, models, ordergfa
from vf.props import c06

ID = "C07"
LEVEL = "exploration"
LEVEL_TEXT = (
    "Generated-input search, two sub-domains: (A) arbitrary small GFA texts (any valid S/L tags, all four link orientation "
    "combinations, self-links, links declared from either or both ends, other record types interleaved, any line order) "
    "loaded and written back, audited by an independent text parser and by reloading; (B) order_gfa on generated multi-"
    "chromosome rGFAs with extra S/L tags and sequences, --with-sequence and --by-chrom on/off, auditing every output GFA "
    "and CSV against the input."
)
LEVEL_NOTE = "Trusts the independent GFA text parser and canonical link form in vf/models.py; BO/NO values themselves are judged by C06, here only their consistency between GFA, S-line order and CSV."
TECHNIQUE = "property-based testing (Hypothesis) with a load-write-reload round trip and an independent-parser audit of order_gfa's outputs"
RULE = (
    "A: Hypothesis-generated GFA text (1-8 segments, tags from the SAM grammar incl. ':' in Z values and digits in tag names, "
    "sequences or '*', 0-12 links incl. self-links and repeated/both-end declarations, H/P/W/C/# lines, drawn line order); "
    "GFA(path).write_gfa then parse: segments (id -> seq, ordered tags) and the set of canonical links with overlap and tags "
    "equal the input's, no link duplicated beyond the input's declarations, S lines before L lines, reload is_equal_to. "
    "B: C06-style rGFAs with extra tags and sequences through order_gfa: per output, segment ids == component's, sequences "
    "kept/'*', tags == input's plus exactly BO,NO, links == input links inside the component, S before L, S lines sorted by "
    "(BO,NO), CSV lists every node once with the same BO/NO and orange<=>NO=0. Non-trivial A: a link with '-' on both ends, a "
    "self-link or a both-ends declaration; B: >=2 chromosomes or --with-sequence. Distinct by SHA-1 of the case."
    " Later additions: 120 chromosomes ordered with 40 spare file descriptors, names containing commas (CSV "
    "parsed as CSV), only graph-carrying files count as unexpected output."
)
ASSUMPTIONS = [
    "two declarations of the same adjacency that disagree in overlap or tags, dangling links and non-'<int>M' overlaps are not generated",
    "final-field trailing whitespace is excluded (the loader strips lines)",
]


KNOWN_PARALLEL = "C07-parallel-links-opposite-ends"


def budget(tier):
    if tier == "quick":
        return {"examples": 700, "shards": 2}
    return {"examples": 4000, "shards": 16}


@st.composite
def case_a(draw):
    g = draw(gen_graph.raw_gfa(max_nodes=8, max_links=12, seq_mode="mixed", soft_masked=True, no_final_newline_ok=True))
    return {"kind": "io", "gfa": g["text"]}


@st.composite
def case_b(draw):
    import random

    rnd = random.Random(draw(st.integers(0, 2**30)))
    b = gen_graph._Builder(draw, rnd, [draw(st.sampled_from(["s", "s", "utg", "Name", "S", "L"])), "utg"], draw(st.sampled_from([0, 8, 97])), 7)
    b.cycles = draw(st.booleans())
    nchrom = draw(st.integers(1, 3))
    names = draw(st.permutations(["chr1", "chr2", "chrX", "chr1.mat", "chr1.pat"]))[:nchrom]
    for name in names:
        b.chain(name, draw(st.sampled_from([0, 2, 3, 4, 6])))
    b.fix_majority()
    g = {"nodes": b.nodes, "links": b.links}
    extra = {}
    for n in g["nodes"]:
        t = draw(gen_graph.sam_tags(max_tags=2, reserved=("LN", "SN", "SO", "SR", "BO", "NO")))
        if draw(st.integers(0, 4)) == 0:
            t = ["BO:i:%d" % draw(st.integers(0, 30))] + t + ["NO:i:%d" % draw(st.integers(0, 4))]
        if t:
            extra[n] = t
    ltags = {}
    for i in range(len(g["links"])):
        if draw(st.integers(0, 2)) == 0:
            ltags[i] = draw(gen_graph.sam_tags(max_tags=2)) or ["SR:i:0"]
    k = draw(st.integers(1, nchrom))
    order = list(draw(st.permutations(names)))[:k]
    for d_ in g["nodes"].values():
        if draw(st.integers(0, 5)) == 0:
            k_ = draw(st.integers(0, len(d_["seq"])))
            d_["seq"] = d_["seq"][:k_] + d_["seq"][k_:].lower()
    # one graph in six comes without sequences ('*' and the LN tag); --with-sequence then has nothing but '*' to write
    ov_ = draw(st.integers(0, 29))
    text = gen_graph.gfa_text(g, with_seq=draw(st.integers(0, 5)) > 0, extra_tags=extra, link_tags=ltags,
                              order_seed=draw(st.integers(0, 999)), header=draw(st.booleans()),
                              overlap_seed=ov_ if ov_ < 10 else None)  # a third of the graphs declare non-zero overlaps
    if draw(st.integers(0, 2)) == 0:
        # LN is optional when the sequence is given: drop it from some S lines
        out_ = []
        for line in text.split("\n"):
            f = line.split("\t")
            if f[0] == "S" and f[2] != "*" and draw(st.integers(0, 2)) == 0:
                f = [x for x in f if not x.startswith("LN:i:")]
            out_.append("\t".join(f))
        text = "\n".join(out_)
    if draw(st.integers(0, 5)) == 0:
        text = text[:-1]  # no newline after the last record
    return {"kind": "order", "gfa": text, "order": ",".join(order), "by_chrom": draw(st.integers(0, 1)) == 1,
            "with_sequence": draw(st.integers(0, 1)) == 1, "via": draw(st.sampled_from(["api", "api", "cli"]))}


def strategy(tier):
    return st.one_of(case_a(), case_a(), case_b())


# ------------------------------------------------------------------------------------------


def link_counter(links):
    return collections.Counter(links)


def run_io(case):
    from gaftools.gfa import GFA

    segs, s_order, links, kinds = models.parse_gfa_text(case["gfa"])
    with core.workdir() as d:
        core.write_text(d + "/in.gfa", case["gfa"])
        r = core.call(GFA, d + "/in.gfa")
        core.check(r[0] == "ok", "loading the GFA failed: %s", r)
        g1 = r[1]
        r = core.call(g1.write_gfa, output_file=d + "/out.gfa")
        core.check(r[0] == "ok", "write_gfa failed: %s", r)
        out = core.read_text(d + "/out.gfa")
        r = core.call(GFA, d + "/out.gfa")
        core.check(r[0] == "ok", "reloading the written GFA failed: %s", r)
        g2 = r[1]
        core.check(g1.is_equal_to(g2) and g2.is_equal_to(g1), "the written file loads to a different graph")
    osegs, _, olinks, okinds = models.parse_gfa_text(out)
    core.check(set(osegs) == set(segs), "segments written %s, segments read %s", sorted(osegs), sorted(segs))
    for n in segs:
        core.check(osegs[n][0] == segs[n][0], "sequence of %s changed: %r -> %r", n, segs[n][0], osegs[n][0])
        core.check(list(osegs[n][1]) == list(segs[n][1]), "tags of %s changed: %s -> %s", n, segs[n][1], osegs[n][1])
    want = link_counter(links)
    got = link_counter(olinks)
    core.check(set(got) == set(want), "links written differ from links read: missing %s, invented %s",
               sorted(set(want) - set(got))[:3], sorted(set(got) - set(want))[:3])
    known = []
    # raw declarations per adjacency (ignoring the overlap): which ends declared it, with which overlaps
    decl = {}
    for line in case["gfa"].split("\n"):
        f = line.split("\t")
        if f[0] == "L":
            key = models.canon_link(f[1], f[2], f[3], f[4])
            decl.setdefault(key, set()).add(((f[1], f[2], f[3], f[4]) == key, f[5]))
    for k, c in got.items():
        if c <= want[k]:
            continue
        d_ = decl.get(k[0], set())
        if len({ov for _, ov in d_}) >= 2 and len({end for end, _ in d_}) == 2:
            known.append(KNOWN_PARALLEL)  # parallel links (different overlaps) declared from opposite ends
            continue
        raise core.Violation("link %s written %d times, declared %d times" % (k, c, want[k]))
    core.check("S" not in "".join(okinds).lstrip("S"), "an S line follows an L line in the written file")
    cl = ["io"]
    if any(l[0][1] == "-" and l[0][3] == "-" for l in links):
        cl.append("link_minus_minus")
    if any(l[0][0] == l[0][2] for l in links):
        cl.append("self_link")
    if any(c > 1 for c in want.values()):
        cl.append("adjacency_declared_twice")
    ends_ = collections.Counter(l[0] for l in set(links))
    if any(c > 1 for c in ends_.values()):
        cl.append("parallel_links_different_overlap")
    if any(l[2] for l in links):
        cl.append("tagged_link")
    if any(":" in t.split(":", 2)[2] for s in segs.values() for t in s[1]):
        cl.append("colon_in_tag_value")
    if any(s[0] != s[0].upper() for s in segs.values()):
        cl.append("soft_masked_bases")
    if not case["gfa"].endswith("\n"):
        cl.append("no_final_newline")
    return core.Result(bool({"link_minus_minus", "self_link", "adjacency_declared_twice"} & set(cl)), cl, sorted(set(known)))


def audit_output(name, gfa, csv, nodes_in, segs_in, links_in, comp_nodes, with_sequence):
    core.check(gfa is not None, "%s: output GFA missing", name)
    segs, s_order, links, kinds, bono = ordergfa.parse_ordered_gfa(gfa)
    core.check(set(segs) == set(comp_nodes), "%s: segments %s, expected the component's %s", name,
               sorted(set(segs) ^ set(comp_nodes))[:5], len(comp_nodes))
    for n in comp_nodes:
        want_seq = segs_in[n][0] if with_sequence else "*"
        core.check(segs[n][0] == want_seq, "%s: sequence of %s is %r, expected %r", name, n, segs[n][0], want_seq)
        core.check(ordergfa.strip_bono(segs[n][1]) == ordergfa.strip_bono(segs_in[n][1]),
                   "%s: tags of %s are %s, input has %s", name, n, segs[n][1], segs_in[n][1])
    want_links = collections.Counter(l for l in links_in if l[0][0] in comp_nodes and l[0][2] in comp_nodes)
    got_links = collections.Counter(links)
    core.check(got_links == want_links, "%s: links differ: missing %s, extra %s", name,
               list((want_links - got_links).elements())[:3], list((got_links - want_links).elements())[:3])
    core.check("S" not in "".join(kinds).lstrip("S"), "%s: an S line follows an L line", name)
    keys = [bono[n] for n in s_order]
    core.check(keys == sorted(keys), "%s: S lines are not in (BO,NO) order: %s", name, keys[:12])
    core.check(csv is not None, "%s: CSV missing", name)
    rows = ordergfa.parse_csv(csv)
    core.check(rows and all(len(r) == len(rows[0]) for r in rows), "%s: ragged CSV", name)
    header = rows[0]
    col = {h.strip().lower(): i for i, h in enumerate(header)}
    core.check("name" in col and "bo" in col and "no" in col, "%s: CSV header %s lacks Name/BO/NO columns", name, header)
    body = [r for r in rows if r != header]
    names = [r[col["name"]] for r in body]
    core.check(sorted(names) == sorted(comp_nodes), "%s: CSV lists %d rows for %d nodes (dups/missing: %s)", name, len(names),
               len(comp_nodes), sorted(set(names) ^ set(comp_nodes))[:4])
    role_of = {}
    for r in body:
        n = r[col["name"]]
        try:
            got_bono = (int(r[col["bo"]]), int(r[col["no"]]))
        except ValueError:
            raise core.Violation("%s: CSV BO/NO of %s are not integers: %s" % (name, n, r))
        core.check(got_bono == bono[n], "%s: CSV BO/NO of %s = %s but the GFA has %s", name, n, got_bono, bono[n])
        # the role column (named Color: the file is meant for Bandage) must tell scaffold nodes from bubble nodes;
        # which label stands for which role is not pinned
        other = tuple(v for i, v in enumerate(r) if i not in (col["name"], col["bo"], col["no"], col.get("sn", -1), col.get("so", -1)))
        role_of.setdefault(bono[n][1] == 0, set()).add(other)
    for scaffold, labels in role_of.items():
        core.check(len(labels) == 1, "%s: CSV gives %s nodes several role labels: %s", name,
                   "scaffold" if scaffold else "bubble", sorted(labels))
    if len(role_of) == 2:
        core.check(role_of[True] != role_of[False], "%s: CSV gives scaffold and bubble nodes the same role label %s", name, role_of[True])


def graph_files(files):
    """Output files that carry graph content: GFA/CSV by name, or anything with segment lines (left-over pieces). Other
    files a run may leave (logs, summaries) are none of this property's business."""
    return [f for f, text in files.items()
            if f.endswith((".gfa", ".csv")) or any(l.startswith("S\t") for l in text.split("\n")[:50])]


def run_order_case(case):
    nodes, links_plain = models.nodes_from_gfa_text(case["gfa"])
    segs_in, _, links_in, _ = models.parse_gfa_text(case["gfa"])
    named = c06.name_components(nodes, links_plain)
    order = case["order"].split(",")
    with core.workdir() as d:
        limit = case.get("nofile_headroom")
        if limit:
            # many chromosomes: every file is closed when it is done with, so a soft limit of `headroom` descriptors above
            # those open now is plenty however many chromosomes there are
            import os
            import resource

            soft, hard = resource.getrlimit(resource.RLIMIT_NOFILE)
            resource.setrlimit(resource.RLIMIT_NOFILE, (len(os.listdir("/proc/self/fd")) + limit, hard))
        try:
            res, files = ordergfa.run_order(d, case["gfa"], case["order"], case["by_chrom"], case["with_sequence"],
                                            via=case.get("via", "api"))
        finally:
            if limit:
                resource.setrlimit(resource.RLIMIT_NOFILE, (soft, hard))
    core.check(res[0] == "ok", "order_gfa failed: %s", res)
    # the input itself must still load to what its text says (nothing left behind by the run in this process)
    from gaftools.gfa import GFA

    with core.workdir() as d2:
        core.write_text(d2 + "/g.gfa", case["gfa"])
        r2 = core.call(GFA, d2 + "/g.gfa")
    core.check(r2[0] == "ok", "loading the input after order_gfa failed: %s", r2)
    for n, (seq_, tags_) in segs_in.items():
        got_ = ["%s:%s:%s" % (k, v[0], v[1]) for k, v in r2[1].nodes[n].tags.items()]
        core.check(got_ == list(tags_), "after order_gfa ran, loading the input gives segment %s the tags %s, the file says %s", n, got_, list(tags_))
    outs = ordergfa.outputs_by_chrom(files, case["by_chrom"], order)
    if case["by_chrom"]:
        for c in order:
            gfa, csv, ng, ns = outs[c]
            core.check(ng == 1 and ns == 1, "%s: %d GFA and %d CSV files written (files: %s)", c, ng, ns, sorted(files))
            audit_output(c, gfa, csv, nodes, segs_in, links_in, set(named[c]), case["with_sequence"])
        core.check(len(graph_files(files)) == 2 * len(order), "unexpected GFA/CSV files in the output directory: %s", sorted(files))
    else:
        gfa, csv, ng, ns = outs["complete"]
        core.check(ng == 1 and ns == 1, "complete: %d GFA and %d CSV files written (files: %s)", ng, ns, sorted(files))
        allnodes = set()
        for c in order:
            allnodes |= set(named[c])
        audit_output("complete", gfa, csv, nodes, segs_in, links_in, allnodes, case["with_sequence"])
        core.check(len(graph_files(files)) == 2, "unexpected GFA/CSV files in the output directory: %s", sorted(files))
    cl = ["order", "by_chrom" if case["by_chrom"] else "complete", "with_sequence" if case["with_sequence"] else "no_sequence",
          "via:" + case.get("via", "api")]
    if len(order) >= 2:
        cl.append("chromosomes>=2")
    if any(t.startswith("BO:") for s in segs_in.values() for t in s[1]):
        cl.append("stale_BO_NO")
    if any(s[0] != s[0].upper() for s in segs_in.values()):
        cl.append("soft_masked_bases")
    if not case["gfa"].endswith("\n"):
        cl.append("no_final_newline")
    if any(not any(t.startswith("LN:") for t in s[1]) for s in segs_in.values()):
        cl.append("segment_without_LN")
    return core.Result(len(order) >= 2 or case["with_sequence"], cl)


def run_case(case):
    if case["kind"] == "io":
        return run_io(case)
    return run_order_case(case)


def enumerations(tier, shard, nshards):
    if shard != 0:
        return

    def gen():
        import random

        rnd = random.Random(11)
        big = "".join(rnd.choices("ACGT", k=1_200_000))
        lines = [
            "S\tr1\tACGTAC\tLN:i:6\tSN:Z:chr1\tSO:i:0\tSR:i:0\txx:Z:first",
            "S\tr2\tGGT\tLN:i:3\tSN:Z:chr1\tSO:i:6\tSR:i:0",
            "S\thBIG\t%s\tLN:i:1200000\tSN:Z:HG01#1#ctg9\tSO:i:500\tSR:i:1\tkc:i:7\tzz:Z:tail-of-a-very-long-line" % big,
            "S\tr3\tTTGAC\tLN:i:5\tSN:Z:chr1\tSO:i:9\tSR:i:0",
            "S\tr4\tCA\tLN:i:2\tSN:Z:chr1\tSO:i:14\tSR:i:0",
            "L\tr1\t+\tr2\t+\t0M", "L\tr2\t+\tr3\t+\t0M", "L\tr1\t+\thBIG\t+\t0M", "L\thBIG\t+\tr3\t+\t0M", "L\tr3\t+\tr4\t+\t0M",
        ]
        text = "\n".join(lines) + "\n"
        yield {"kind": "io", "gfa": text}
        for by, ws in ((True, True), (False, False), (False, True)):
            yield {"kind": "order", "gfa": text, "order": "chr1", "by_chrom": by, "with_sequence": ws, "via": "api"}

    yield ("a segment line longer than 1 MiB (1.2 Mb insertion allele): round trip and order_gfa with/without sequences", gen(), True)

    def many():
        # 120 chromosomes (a bubble each) with no more than 40 spare file descriptors
        lines, names = [], []
        for c in range(120):
            nm = "ctg%03d" % c
            names.append(nm)
            e0, a, x, y, b_, e1 = ["m%d%s" % (c, t) for t in ("e", "a", "x", "y", "b", "f")]
            lines += ["S\t%s\tA\tLN:i:1\tSN:Z:%s\tSO:i:0\tSR:i:0" % (e0, nm), "S\t%s\tACG\tLN:i:3\tSN:Z:%s\tSO:i:1\tSR:i:0" % (a, nm),
                      "S\t%s\tT\tLN:i:1\tSN:Z:%s\tSO:i:4\tSR:i:0" % (x, nm), "S\t%s\tGG\tLN:i:2\tSN:Z:%s\tSO:i:5\tSR:i:0" % (b_, nm),
                      "S\t%s\tC\tLN:i:1\tSN:Z:h#1#%s\tSO:i:0\tSR:i:1" % (y, nm), "S\t%s\tT\tLN:i:1\tSN:Z:%s\tSO:i:7\tSR:i:0" % (e1, nm),
                      "L\t%s\t+\t%s\t+\t0M" % (e0, a), "L\t%s\t+\t%s\t+\t0M" % (a, x), "L\t%s\t+\t%s\t+\t0M" % (x, b_),
                      "L\t%s\t+\t%s\t+\t0M" % (a, y), "L\t%s\t+\t%s\t+\t0M" % (y, b_), "L\t%s\t+\t%s\t+\t0M" % (b_, e1)]
        text = "\n".join(lines) + "\n"
        for by in (False, True):
            yield {"kind": "order", "gfa": text, "order": ",".join(names), "by_chrom": by, "with_sequence": True, "via": "api",
                   "nofile_headroom": 40}

    yield ("120 chromosomes ordered in one run with 40 spare file descriptors (merged and --by-chrom)", many(), True)
