"""C09 - sort emits every record once, unchanged, plus correct bo/sn/iv tags."""

import collections
import gzip
import os
import pickle

from hypothesis import strategies as st

from vf import bgzf, core, gen_gaf, gen_graph, models
from vf.props import c08

ID = "C09"
LEVEL = "exploration"
LEVEL_TEXT = (
    "Generated-input search over BO/NO-tagged rGFAs and GAFs (plain or BGZF input with drawn block cuts, plain or --bgzip "
    "output, up to >64 KiB so that several BGZF blocks are read and written); oracle = multiset equality of the records minus "
    "the three appended fields, and recomputation of bo/sn/iv from their definitions."
)
LEVEL_NOTE = "Trusts the recomputed anchor/sn/iv definitions (shared with C08) and gzip for reading BGZF output."
TECHNIQUE = "property-based testing (Hypothesis) with a permutation (multiset) oracle and recomputed tag values, across input/output compression configurations"
RULE = (
    "Hypothesis-generated tagged rGFA (as C08) + 1-60 records (a 'big' class pads records so input and output exceed 64 KiB), "
    "plain or BGZF input (0-6 drawn block cuts), plain or --bgzip output, final newline present or not (plain input). Oracle: "
    "multiset of output lines minus their last three fields == multiset of input lines; the last three fields are exactly "
    "bo:i:<BO of anchor>, sn:Z:<rank-0 contig of the reference nodes on the path | unknown>, iv:i:<1 iff tagged scaffold nodes "
    "occur in both orientations>. Non-trivial = >=3 records and a record with iv=1 or sn=unknown or a reverse-majority anchor. "
    "Distinct by SHA-1 of the case."
    " Later additions: records with exactly twelve columns, BGZF input sorted to standard output, signed "
    "integer tags."
)
ASSUMPTIONS = ["a path touches reference nodes of one rank-0 contig only (walks stay inside one component)"]


def budget(tier):
    if tier == "quick":
        return {"examples": 300, "shards": 2}
    return {"examples": 2500, "shards": 16}


@st.composite
def sort_case(draw, tier, max_records=60, force_all_ref=None):
    g = draw(gen_graph.rgfa(max_chroms=3, max_elements=4, cycles=True))
    if draw(st.integers(0, 3)) == 0:
        # a reference built on a region: the contig name itself contains ':' and '-'
        ren = {c["name"]: c["name"] + ":1000-2000" for c in g["chroms"][:1]}
        for d_ in g["nodes"].values():
            d_["sn"] = ren.get(d_["sn"], d_["sn"])
    ids = list(g["nodes"])
    untag = draw(st.lists(st.sampled_from(ids), max_size=max(1, len(ids) // 5), unique=True))
    extra = c08.tag_graph(g, untag, no_scale=draw(st.sampled_from([1, 1, 5])), bo_scale=draw(st.sampled_from([1, 1, 11])),
                           plus=draw(st.integers(0, 5)) == 0)
    lm = models.LinkModel(g["links"])
    big = draw(st.integers(0, 5)) == 0
    n = draw(st.integers(12, max_records)) if big else draw(st.integers(1, min(max_records, 25)))
    mode = force_all_ref if force_all_ref is not None else draw(st.sampled_from(["any", "any", "any", "all_ref", "all_ref", "single", "empty"]))
    if mode == "single":
        n = 1
    if mode == "empty":
        n = 0  # a GAF without any record is still a GAF: empty output, empty index
    refs = [i for i in ids if g["nodes"][i]["sr"] == 0]
    closed = gen_gaf.revisit_walks(g, lm) if draw(st.booleans()) else []
    lines = []
    for i in range(n):
        prefix = draw(st.sampled_from(closed)) if (closed and draw(st.integers(0, 2)) == 0) else None
        if prefix and mode == "all_ref" and not any(g["nodes"][x]["sr"] == 0 for _, x in prefix):
            prefix = None
        rec = draw(gen_gaf.record(g, lm, name="r%d" % i, max_len=draw(st.sampled_from([1, 2, 6])),
                                  start_pool=refs if (mode == "all_ref") else None, prefix=prefix))
        if big:
            rec["tags"] = rec["tags"] + ["zq:Z:" + "k" * draw(st.integers(2000, 9000))]
        if draw(st.integers(0, 6)) == 0:
            rec["strand"] = "-"
        k_ = draw(st.integers(0, 9))
        if k_ == 4:
            rec["name"] = "#%d/ccs" % i  # not a comment: GAF has no comment lines, column 1 is any printable string
        if k_ == 0:
            rec["name"] += " len=300 mean_q=14.2"  # GraphAligner copies the whole FASTQ header
        elif k_ == 1:
            rec["tags"] = rec["tags"] + ["ds:Z::40*ag:51"]  # minigraph >= 0.21
        elif k_ == 2:
            rec["tags"] = rec["tags"] + ["xx:i:1", "xx:i:2", "fl:f:-1.5e-3"]
        elif k_ == 5:
            # the twelve mandatory columns and nothing else
            rec["tags"] = []
            rec["cg"] = None
        elif k_ == 3:
            # the output of an earlier sort (other chromosome order), possibly realigned afterwards
            rec["tags"] = rec["tags"] + ["bo:i:%d" % draw(st.integers(0, 30)), "sn:Z:chr7", "iv:i:0"] + (["zz:Z:later"] if draw(st.booleans()) else [])
        lines.append(gen_gaf.record_line(rec))
    data_len = sum(len(l) + 1 for l in lines)
    comp = None
    if draw(st.integers(0, 2)) > 0:
        ncuts = draw(st.integers(0, 6))
        cuts = sorted(set(draw(st.lists(st.integers(1, max(1, data_len - 1)), min_size=ncuts, max_size=ncuts))))
        comp = {"cuts": cuts, "empty": draw(st.booleans())}
    return {
        "gfa": gen_graph.gfa_text(g, with_seq=False, extra_tags=extra, order_seed=draw(st.integers(0, 99))),
        "gaf": lines,
        "bgzf": comp,
        "bgzip_out": draw(st.integers(0, 2)) > 0,
        "final_newline": True if comp else draw(st.sampled_from([True, True, False])),
        "outind": draw(st.booleans()),
        "via": draw(st.sampled_from(["api", "api", "cli"])),
        # the pipeline of the documentation: tags come from a real `gaftools order_gfa` run on the same graph
        "tag_with_order_gfa": draw(st.integers(0, 4)) == 0,
        "crlf": draw(st.integers(0, 9)) == 0,
    }


def strategy(tier):
    return sort_case(tier)


def expected_tags(nodes, line):
    f = line.split("\t")
    steps = models.parse_path(f[5])
    key, side, anchor = c08.sort_key(nodes, line)
    bo = nodes[anchor]["BO"]
    sn = None
    for o, n in steps:
        if nodes[n]["SR"] == 0:
            sn = nodes[n]["SN"]
            break
    orients = {o for o, n in steps if nodes[n]["BO"] != -1 and nodes[n]["NO"] == 0}
    iv = 1 if len(orients) == 2 else 0
    return ["bo:i:%d" % bo, "sn:Z:%s" % (sn if sn is not None else "unknown"), "iv:i:%d" % iv], side


def order_gfa_tagged(case):
    """The graph of the case re-tagged by order_gfa itself (all chain-shaped chromosomes, complete output), and the
    records whose nodes all received tags. Returns (gfa text, lines) or None when order_gfa orders nothing."""
    from vf import ordergfa
    from vf.props import c06

    plain = "\n".join("\t".join(x for x in l.split("\t") if not x.startswith(("BO:i:", "NO:i:"))) for l in case["gfa"].split("\n"))
    nodes, links = models.nodes_from_gfa_text(plain)
    named = c06.name_components(nodes, links)
    if not named:
        return None
    good = []
    for nm, comp in sorted(named.items()):
        dec = models.chain_decompose(nodes, links, comp)
        if dec["shape"] == "single" or (dec["shape"] == "chain" and dec["oriented"] and dec["monotone"] and len(dec["scaffold_sn"]) == 1):
            good.append(nm)
    if not good:
        return None
    with core.workdir() as d:
        res, files = ordergfa.run_order(d, plain, ",".join(good), False, with_sequence=False)
    if res[0] != "ok":
        raise core.Violation("order_gfa failed on the graph to be used by sort: %s" % (res,))
    text = [v for k, v in files.items() if k.endswith("-complete.gfa")]
    if not text:
        return None
    tagged = {l.split("\t")[1] for l in text[0].split("\n") if l.startswith("S\t")}
    lines = [l for l in case["gaf"] if all(n in tagged for _, n in models.parse_path(l.split("\t")[5]))]
    if not lines:
        return None
    return text[0], lines


def run_sort(case, d):
    """Materialise and run sort. Returns (result, output lines or None, output path, index path)."""
    from gaftools.cli.sort import run_sort as rs

    core.write_text(d + "/g.gfa", case["gfa"])
    text = "".join(l + ("\r\n" if case.get("crlf") else "\n") for l in case["gaf"])
    if not case.get("final_newline", True):
        text = text[:-2] if case.get("crlf") else text[:-1]
    if case.get("bgzf"):
        inp = d + "/in.gaf.gz"
        bgzf.write_bgzf(inp, text.encode(), case["bgzf"]["cuts"], case["bgzf"]["empty"])
    else:
        inp = d + "/in.gaf"
        core.write_text(inp, text)
    out = d + ("/out.gaf.gz" if case["bgzip_out"] else "/out.gaf")
    ind = d + "/custom.idx" if case.get("outind") else None
    if case.get("via") == "subprocess":
        # a fresh interpreter, exactly as the command is used (nothing left over from earlier calls in this process)
        import subprocess
        import sys as _sys

        env = dict(os.environ, PYTHONPATH=core.REPO)
        p_ = subprocess.run([_sys.executable, "-m", "gaftools", "sort", inp, d + "/g.gfa", "--outgaf", out], cwd=core.REPO, env=env,
                            stdout=subprocess.DEVNULL, stderr=subprocess.PIPE, timeout=1800)
        res = ("ok", None) if p_.returncode == 0 else ("exit", "%d %s" % (p_.returncode, p_.stderr.decode(errors="replace")[-300:]))
    elif case.get("via", "api") == "cli":
        if ind and len(case["gaf"]) % 2 == 0:
            # paths relative to the working directory, the sorted GAF in a sub-directory, the index next to the input
            os.makedirs(d + "/sorted", exist_ok=True)
            out = d + "/sorted/" + os.path.basename(out)
            rel = lambda p_: os.path.relpath(p_, d)
            argv = ["sort", rel(inp), "g.gfa", "--outgaf", rel(out), "--outind", rel(ind)] + (["--bgzip"] if case["bgzip_out"] else [])
            cwd = os.getcwd()
            os.chdir(d)
            try:
                res = core.cli(argv)
            finally:
                os.chdir(cwd)
        elif ind and len(case["gaf"]) % 4 == 1:
            # --outind names the default location (<outgaf>.gsi) in another spelling: relative --outgaf, absolute --outind
            ind = out + ".gsi"
            argv = ["sort", inp, d + "/g.gfa", "--outgaf", "./" + os.path.basename(out), "--outind", ind] + (["--bgzip"] if case["bgzip_out"] else [])
            cwd = os.getcwd()
            os.chdir(d)
            try:
                res = core.cli(argv)
            finally:
                os.chdir(cwd)
        else:
            argv = ["sort", inp, d + "/g.gfa", "--outgaf", out] + (["--outind", ind] if ind else []) + (["--bgzip"] if case["bgzip_out"] else [])
            res = core.cli(argv)
    else:
        res = core.call(rs, d + "/g.gfa", inp, outgaf=out, outind=ind, bgzip=case["bgzip_out"])
    lines = None
    try:
        if case["bgzip_out"]:
            with gzip.open(out, "rt") as f:
                data = f.read()
        else:
            data = core.read_text(out)
        if data == "" or data.endswith("\n"):
            lines = data.split("\n")[:-1]
    except (OSError, EOFError):
        lines = None
    return res, lines, out, (ind or out + ".gsi")


def classes_of(case, nodes, exp):
    cl = ["in:bgzf" if case.get("bgzf") else "in:plain", "out:bgzf" if case["bgzip_out"] else "out:plain",
          "via:" + case.get("via", "api")]
    size = sum(len(l) + 1 for l in case["gaf"])
    if size > 65536:
        cl.append("larger_than_64KiB")
    if not case.get("final_newline", True):
        cl.append("no_final_newline")
    if case.get("crlf"):
        cl.append("crlf_line_endings")
    if any("\tbo:i:" in l for l in case["gaf"]):
        cl.append("input_already_sorted_once")
    if any(" " in l.split("\t")[0] or "ds:Z:" in l or "xx:i:2" in l for l in case["gaf"]):
        cl.append("record_a_lossy_parser_would_rewrite")
    if any(t[0][2] == "iv:i:1" for t in exp):
        cl.append("iv=1")
    if any(t[0][1] == "sn:Z:unknown" for t in exp):
        cl.append("sn=unknown")
    else:
        cl.append("no_unknown_record")
    if any(t[1] == "rev" for t in exp):
        cl.append("reverse_anchor")
    if len({t[0][1] for t in exp} - {"sn:Z:unknown"}) >= 2:
        cl.append(">=2_contigs")
    if not case["gaf"]:
        cl.append("empty_gaf")
    if any(":" in t[0][1][5:] for t in exp):
        cl.append("contig_name_with_colon")
    return cl


def run_case(case):
    pipeline = False
    if case.get("tag_with_order_gfa"):
        r = order_gfa_tagged(case)
        if r is not None:
            case = dict(case, gfa=r[0], gaf=r[1], bgzf=None)
            pipeline = True
    nodes = c08.parse_tagged_gfa(case["gfa"])
    lines = case["gaf"]
    with core.workdir() as d:
        res, out, _, _ = run_sort(case, d)
    core.check(res[0] == "ok", "sort failed: %s", res)
    core.check(out is not None, "sort output is missing or not newline-terminated")
    core.check(len(out) == len(lines), "%d input records, %d output records", len(lines), len(out))
    exp = [expected_tags(nodes, l) for l in lines]
    want = collections.Counter()
    for l, (tags, _) in zip(lines, exp):
        want[l + "\t" + "\t".join(tags)] += 1
    got = collections.Counter(out)
    if got != want:
        missing = list((want - got).elements())[:2]
        extra = list((got - want).elements())[:2]
        raise core.Violation("output is not the input records plus bo/sn/iv: expected-but-missing %r, unexpected %r"
                             % (missing, extra))
    cl = classes_of(case, nodes, exp) + (["graph_tagged_by_order_gfa"] if pipeline else [])
    if case.get("via") == "cli" and not case["bgzip_out"] and (len(lines) <= 25 or case.get("stdout_too")):
        # the documented default: without --outgaf the sorted records go to standard output
        with core.workdir() as d:
            core.write_text(d + "/g.gfa", case["gfa"])
            inp_ = d + "/in.gaf"
            if case.get("bgzf"):
                inp_ = d + "/in.gaf.gz"  # a compressed input sorted to standard output
                bgzf.write_bgzf(inp_, "".join(l + "\n" for l in lines).encode(), case["bgzf"]["cuts"], case["bgzf"]["empty"])
                cl.append("stdout_from_bgzf_input")
            else:
                core.write_text(inp_, "".join(l + "\n" for l in lines))
            r = core.cli(["sort", inp_, d + "/g.gfa"], capture_stdout=True)
        core.check(r[0] == "ok", "sort to standard output failed: %s", r)
        core.check(r[1].split("\n")[:-1] == out, "sort to standard output differs from --outgaf output")
        cl.append("stdout")
    nontrivial = len(lines) >= 3 and bool({"iv=1", "sn=unknown", "reverse_anchor"} & set(cl))
    return core.Result(nontrivial, cl)


def enumerations(tier, shard, nshards):
    if shard != 0:
        return

    def big():
        # a file size no generated case reaches: 100 003 records (quick) / 500 001 records (thorough), plain in, plain out
        import random

        n = 100003 if tier == "quick" else 500001
        rnd = random.Random(9)
        order = [rnd.randrange(len(c08.POOL)) for _ in range(n)]
        gaf = [c08.POOL[k].replace("p%d\t" % k, "v%d\t" % i, 1) for i, k in enumerate(order)]
        yield {"gfa": c08.POOL_GFA, "gaf": gaf, "bgzf": None, "bgzip_out": False, "final_newline": True, "outind": False, "via": "subprocess",
               "tag_with_order_gfa": False}

    yield ("%s records drawn from the near-tie pool" % ("100 003" if tier == "quick" else "500 001"), big(), True)

    def chunks():
        # record counts at which chunked writers change behaviour (0, 4096, 8192), to a file and to standard output
        import random

        rnd = random.Random(10)
        for n in (0, 4096, 8192):
            order = [rnd.randrange(len(c08.POOL)) for _ in range(n)]
            gaf = [c08.POOL[k].replace("p%d\t" % k, "c%d\t" % i, 1) for i, k in enumerate(order)]
            yield {"gfa": c08.POOL_GFA, "gaf": gaf, "bgzf": None, "bgzip_out": False, "final_newline": True, "outind": False, "via": "cli",
                   "tag_with_order_gfa": False, "stdout_too": True}

    yield ("0, 4096 and 8192 records sorted to a file and to standard output", chunks(), True)
