"""C11 - realign output is exactly-once and in input order under every schedule."""

import itertools
import os

from hypothesis import strategies as st

from vf import core, fakemp, realign_common as rc

ID = "C11"
LEVEL = "exploration"
LEVEL_TEXT = (
    "Schedule exploration on a harness-owned platform: the real run_realign / wfa_alignment code runs in-process with "
    "gaftools.cli.realign.mp replaced by a simulated multiprocessing module whose every scheduling decision (worker "
    "progress between any two parent actions, queue timeouts while results are in flight, workers finishing before the "
    "liveness check) is a generated choice; Hypothesis generates inputs x cores x batch sizes x schedules, a stateless DFS "
    "enumerates the full choice tree of tiny configurations, and a few real-process runs keep the model honest. Oracle: "
    "byte-identical to the 1-core no-timeout output, one line per record in input order, no exception, no hang "
    "(quiescence criterion)."
)
LEVEL_NOTE = (
    "Trusted base: the platform model in vf/fakemp.py (FIFO per worker, exit only after delivery, is_alive/exitcode "
    "consistent). Preemption inside a single parent action is abstracted to before/after; real-OS timing is only sampled."
)
TECHNIQUE = "schedule fuzzing with a simulated multiprocessing platform driven by Hypothesis choice lists + bounded-exhaustive DFS of the scheduler's choice tree + differential against the single-core output"
RULE = (
    "Hypothesis-generated sequence graph + 1-14 records with reads, cores 1-4, batch size 1-3 (guarded hook "
    "GAFTOOLS_VERIF_REALIGN_BATCH) and a schedule = list of <=400 integers consumed by the simulated platform; oracle: output == "
    "single-core/no-timeout output, byte for byte; one line per input record, read names in input order; no exception; hang = "
    ">50 polls in a quiescent state. Bounded-exhaustive: every schedule that deviates from the eager schedule at <=3 (quick) / <=4 (thorough) choice "
    "points, for <=2 records x cores 1-3 x batch 1-2 (completion reported). Real-process tier: real multiprocessing, cores 1-3 x batch 1-3. Non-trivial = the schedule had >=1 "
    "timeout while a result was in flight and the run used >=2 workers or >=2 process groups. Distinct by SHA-1 of the case."
    " Later additions: realign to standard output, machines with fewer CPUs than --cores (simulated) and one "
    "core more than the machine has (real), 301 and 900 records in default-size batches through real "
    "processes (in a child process group with a time limit), a clipped alignment of a read longer than 60 000 "
    "bases, soft-masked sequences, wrapped FASTA, unusual read names."
)
ASSUMPTIONS = [
    "platform model of vf/fakemp.py (see its docstring); real-OS timing is sampled by the real-process tier only",
]

FIXED = None


def budget(tier):
    if tier == "quick":
        return {"examples": 500, "shards": 2}
    return {"examples": 8000, "shards": 16}


@st.composite
def schedule(draw):
    """A list of scheduler choices; 0 = 'no progress / time out', larger = more progress. When the list is used
    up the platform schedules eagerly."""
    lo = draw(st.sampled_from([0, 10, 40, 120]))
    return draw(st.lists(st.sampled_from([0, 0, 0, 1, 2, 3]), min_size=lo, max_size=lo + 200))


@st.composite
def strategy_(draw, tier):
    case = draw(rc.realign_inputs(max_records=14))
    case["cores"] = draw(st.integers(1, 4))
    case["batch"] = draw(st.integers(1, 3))
    case["choices"] = draw(schedule())
    case["kind"] = "sim"
    # machines with fewer CPUs than --cores: the request is capped (with a warning), the output is the same
    case["cpu"] = draw(st.sampled_from([64, 64, 64, 1, 2, 3]))
    case["via"] = draw(st.sampled_from(["api", "api", "api", "cli", "cli_stdout"]))
    if draw(st.integers(0, 3)) == 0:
        # all workers descheduled (or one slow alignment): up to 150 consecutive empty polls, starting at a drawn poll
        case["stall"] = [draw(st.integers(1, 12)), draw(st.sampled_from([5, 45, 130, 150]))]
    return case


def strategy(tier):
    return strategy_(tier)


def reference_output(case, d):
    plat = fakemp.Platform(fakemp.Chooser([]))
    res, text = rc.run_realign(case, d, platform=plat, cores=1, batch=1000, sub="ref.gaf")
    if res[0] != "ok" or text is None:
        raise core.Violation("single-core run without timeouts failed: %s" % (res,))
    return text


def check_output(case, res, text, ref, what):
    core.check(res[0] != "hang", "%s: the parent keeps polling although all workers have exited and the queue is empty (hang)", what)
    core.check(res[0] == "ok", "%s failed: %s", what, res)
    core.check(text is not None, "%s: no output file", what)
    names_in = [l.split("\t")[0].split(" ")[0] for l in case["gaf"]]
    names_out = [l.split("\t")[0] for l in text.split("\n")[:-1]] if text.endswith("\n") or text == "" else None
    core.check(names_out is not None, "%s: output not newline terminated", what)
    core.check(names_out == names_in, "%s: records written %s, input order %s", what, names_out, names_in)
    core.check(text == ref, "%s: output differs from the single-core output", what)


def run_case(case):
    with core.workdir() as d:
        ref = reference_output(case, d)
        if case.get("kind") == "real_many":
            # many batches with real processes under a lowered open-files limit: resources of finished rounds are released
            import subprocess
            import sys as _sys

            core.write_text(d + "/g.gfa", case["gfa"])
            core.write_text(d + "/in.gaf", "".join(l + "\n" for l in case["gaf"]))
            core.write_text(d + "/reads.fa", case["fasta"])
            drv = os.path.join(os.path.dirname(os.path.dirname(os.path.abspath(__file__))), "real_run_driver.py")
            p = rc.run_group([_sys.executable, drv, core.REPO, d, str(case["cores"]), str(case["batch"]), str(case["nofile"])], 300)
            if p is None:
                raise RuntimeError("real-process run with many batches did not finish within 300 s (inconclusive)")
            core.check(p.returncode == 0, "real processes, %d batches, open-files limit %d: realign failed with status %d: %s",
                       len(case["gaf"]) // case["batch"], case["nofile"], p.returncode, p.stderr.decode(errors="replace")[-300:])
            text = core.read_text(d + "/out.gaf")
            check_output(case, ("ok", None), text, ref, "real processes, %d batches" % (len(case["gaf"]) // case["batch"]))
            return core.Result(True, ["real_processes", "many_batches"])
        if case.get("kind") == "real":
            res, text = rc.run_realign_subprocess(case, d, case["cores"], case["batch"])
            # these jobs take seconds: three minutes without an exit status is a deadlock
            core.check(res[0] != "timeout", "real processes, cores=%d batch=%s: realign did not terminate within %s s (deadlock)",
                       case["cores"], case["batch"] or "default", res[1])
            check_output(case, res, text, ref, "real processes, cores=%d batch=%s" % (case["cores"], case["batch"] or "default"))
            return core.Result(case["cores"] >= 2, ["real_processes", "cores=%d" % case["cores"]])
        plat = fakemp.Platform(fakemp.Chooser(case["choices"]), stall=case.get("stall"), cpu=case.get("cpu", 64))
        res, text = rc.run_realign(case, d, platform=plat, sub="sim.gaf", via=case.get("via", "api"))
        check_output(case, res, text, ref, "cores=%d batch=%d schedule=%s" % (case["cores"], case["batch"], case["choices"][:40]))
    nrec = len(case["gaf"])
    nworkers = len(plat.procs)
    groups = len(plat.queues)
    cl = ["cores=%d" % case["cores"], "workers=%s" % (nworkers if nworkers < 4 else ">=4"), "via:" + case.get("via", "api")]
    if case["cores"] > case.get("cpu", 64):
        cl.append("cores>cpu_count")
    if plat.timeouts:
        cl.append("timeout")
    if plat.timeouts_in_flight:
        cl.append("timeout_with_result_in_flight")
    if plat.finish_before_liveness:
        cl.append("worker_finishes_between_timeout_and_liveness_check")
    if groups >= 3:
        cl.append("process_groups>=2")
    if plat.stalled_polls >= 40:
        cl.append("stall_of_40+_polls")
    nontrivial = plat.timeouts_in_flight >= 1 and (min(case["cores"], nworkers) >= 2 or groups >= 3)
    return core.Result(nontrivial, cl)


# ------------------------------------------------------------------------------------------
# bounded-exhaustive DFS over the scheduler's choice tree for tiny configurations + real-process runs

TINY_GFA = "S\ts1\tACGTACGTAA\tLN:i:10\tSN:Z:chr1\tSO:i:0\tSR:i:0\nS\ts2\tGGCATTAC\tLN:i:8\tSN:Z:chr1\tSO:i:10\tSR:i:0\nL\ts1\t+\ts2\t+\t0M\n"
TINY_GAF = [
    "ra\t12\t0\t12\t+\t>s1>s2\t18\t2\t14\t12\t12\t60\tcg:Z:12=",
    "rb\t9\t0\t9\t+\t>s2\t8\t0\t8\t8\t9\t60\tcg:Z:4=1I4=",
]
TINY_FASTA = ">ra\nGTACGTAAGGCA\n>rb\nGGCAATTAC\n"


def tiny_case(nrec, cores, batch):
    return {"gfa": TINY_GFA, "gaf": TINY_GAF[:nrec], "fasta": TINY_FASTA, "cores": cores, "batch": batch, "kind": "sim"}


class _DFSCase(dict):
    pass


def enumerations(tier, shard, nshards):
    k_max = 3 if tier == "quick" else 4
    configs = [(1, 1, 1), (2, 1, 1), (2, 2, 1), (2, 1, 2), (2, 2, 2), (2, 3, 1)]
    for ci, (nrec, cores, batch) in enumerate(configs):
        if ci % nshards != shard:
            continue
        base = tiny_case(nrec, cores, batch)

        def run(chooser, base=base):
            case = dict(base)
            with core.workdir() as d:
                plat = fakemp.Platform(chooser)
                rc.run_realign(case, d, platform=plat, sub="probe.gaf")
            case["choices"] = [t[0] for t in chooser.trace]
            return case

        gen, state = fakemp.bounded_deviation_schedules(run, k_max, max_runs=60000)
        yield ("every schedule with <=%d deviations from the eager schedule: %d record(s), cores=%d, batch=%d"
               % (k_max, nrec, cores, batch), gen, state)
    # real processes
    if shard == 0:
        def real():
            for cores, batch in itertools.product((1, 2, 3), (1, 2)):
                c = tiny_case(2, cores, batch)
                c["kind"] = "real"
                yield c

        yield ("real multiprocessing: cores 1-3 x batch 1-2 on the 2-record input", real(), True)

        def many():
            n = 160 if tier == "quick" else 600
            c = tiny_case(2, 3, 1)
            c["gaf"] = [TINY_GAF[i % 2].replace("ra\t", "x%d\t" % i).replace("rb\t", "x%d\t" % i) for i in range(n)]
            c["fasta"] = "".join(">x%d\n%s\n" % (i, "GTACGTAAGGCA" if i % 2 == 0 else "GGCAATTAC") for i in range(n))
            c["kind"] = "real_many"
            c["nofile"] = 64 if tier == "quick" else 128
            yield c

        def bigbatch():
            n = 900
            for cores in (1, 2):
                c = tiny_case(2, cores, 0)
                c["gaf"] = [TINY_GAF[i % 2].replace("ra\t", "w%d\t" % i).replace("rb\t", "w%d\t" % i) + "\tzq:Z:" + "k" * 60 for i in range(n)]
                c["fasta"] = "".join(">w%d\n%s\n" % (i, "GTACGTAAGGCA" if i % 2 == 0 else "GGCAATTAC") for i in range(n))
                c["kind"] = "real"
                c["batch"] = 0  # the production batch size (1000): all 900 records in one worker, > 64 KiB of results in flight
                yield c

        def odd():
            import os as _os

            n = 301
            for cores in (3, (_os.cpu_count() or 1) + 1):
                c = tiny_case(2, cores, 0)
                c["gaf"] = [TINY_GAF[i % 2].replace("ra\t", "v%d\t" % i).replace("rb\t", "v%d\t" % i) for i in range(n)]
                c["fasta"] = "".join(">v%d\n%s\n" % (i, "GTACGTAAGGCA" if i % 2 == 0 else "GGCAATTAC") for i in range(n))
                c["kind"] = "real"
                c["batch"] = 0
                yield c

        yield ("real multiprocessing: 301 records (one incomplete default-size batch) with 3 cores and with one core more than the machine has",
               odd(), True)

        yield ("real multiprocessing: 900 records in a single default-size batch (results exceed the pipe buffer), cores 1 and 2",
               bigbatch(), True)

        def longs():
            import random

            rnd = random.Random(5)
            big = "".join(rnd.choice("ACGT") for _ in range(60010))
            gfa = "S\ts1\t%s\tLN:i:60010\tSN:Z:chr1\tSO:i:0\tSR:i:0\nS\ts2\tACGTAC\tLN:i:6\tSN:Z:chr1\tSO:i:60010\tSR:i:0\nL\ts1\t+\ts2\t+\t0M\n" % big
            short = lambda nm, a: "%s\t30\t0\t30\t+\t>s1\t60010\t%d\t%d\t30\t30\t60\tcg:Z:30=" % (nm, a, a + 30)
            long_ = "zlong\t60005\t0\t60005\t+\t>s1\t60010\t2\t60007\t60005\t60005\t60\tcg:Z:60005="
            # a clipped alignment of an ultra-long read: 30 aligned bases of a 60 005-base read are realigned like any other
            clip = "zclip\t60005\t100\t130\t+\t>s1\t60010\t102\t132\t30\t30\t60\tcg:Z:30="
            fasta = "".join(">%s\n%s\n" % (nm, big[a:a + 30]) for nm, a in (("ya", 10), ("yb", 500), ("yc", 900), ("yd", 40))) + (
                ">zlong\n%s\n>zclip\n%s\n" % (big[2:60007], big[2:60007]))
            for order in (["ya", "zlong", "yb", "yc"], ["zlong", "ya", "yb", "yd", "yc"], ["ya", "yb", "zlong"], ["ya", "zclip", "zlong", "yb"]):
                pos = {"ya": 10, "yb": 500, "yc": 900, "yd": 40}
                gaf = [long_ if nm == "zlong" else clip if nm == "zclip" else short(nm, pos[nm]) for nm in order]
                for cores, batch in ((1, 2), (2, 1), (2, 2), (3, 1)):
                    yield {"gfa": gfa, "gaf": gaf, "fasta": fasta, "cores": cores, "batch": batch, "choices": [0, 1, 0, 2], "kind": "sim"}

        yield ("records of more than 60 000 read bases (passed through unchanged) and a clipped alignment of such a read among realigned ones: 4 orders x 4 cores/batch settings",
               longs(), True)

        yield ("real multiprocessing, %d one-record batches, cores=3, open-files limit lowered" % (160 if tier == "quick" else 600),
               many(), True)
