"""C10 - sort writes a usable per-chromosome index next to the sorted GAF."""

import os
import pickle

from hypothesis import strategies as st

from vf import core
from vf.props import c08, c09

ID = "C10"
LEVEL = "exploration"
LEVEL_TEXT = (
    "Generated-input search over tagged multi-chromosome rGFAs and GAFs with forced classes (every record touches a reference "
    "node / some do not / a single record), default .gsi vs --outind, plain and BGZF output including multi-block output; "
    "oracle resolves the stored offsets by seeking the sorted file with open().seek / BGZFile.seek."
)
LEVEL_NOTE = "Trusts pysam's BGZFile.seek/readline and Python file seek as the definition of 'seeking the sorted file to those offsets'."
TECHNIQUE = "property-based testing (Hypothesis) with an offset-resolution oracle over plain and multi-block BGZF outputs"
RULE = (
    "Cases as C09 (1-3 chromosomes; classes all-reference / mixed / single record; ~1/6 of cases padded beyond 64 KiB so "
    "--bgzip output has several blocks; default .gsi or --outind). Oracle: the command returns normally and the index file "
    "exists; keys == sn values present in the output minus 'unknown'; seeking the output to entry[0]/entry[1] yields the first / "
    "last output record carrying that sn, and every record with that sn has an ordinal between them. Non-trivial = >=2 contigs "
    "present, or no 'unknown' record at all, or BGZF output with >=2 blocks. Distinct by SHA-1 of the case."
    " Later additions: --outind spelling the default location differently (relative --outgaf, absolute "
    "--outind); an index entry for the 'unknown' bucket is neither required nor forbidden."
)
ASSUMPTIONS = ["'between' is judged on record ordinals of the sorted file (offsets are opaque virtual offsets for BGZF)"]


def budget(tier):
    if tier == "quick":
        return {"examples": 300, "shards": 2}
    return {"examples": 5000, "shards": 16}


def strategy(tier):
    return c09.sort_case(tier)


def read_at(path, off, bgzip):
    from pysam import libcbgzf

    if bgzip:
        f = libcbgzf.BGZFile(path, "rb")
        try:
            f.seek(off)
            line = f.readline()
        finally:
            f.close()
        return line.decode("utf-8").rstrip("\n")
    with open(path, "r") as f:
        f.seek(off)
        return f.readline().rstrip("\n")


def run_case(case):
    from gaftools.cli.sort import run_sort as _rs

    pipeline = False
    if case.get("tag_with_order_gfa"):
        r = c09.order_gfa_tagged(case)
        if r is not None:
            case = dict(case, gfa=r[0], gaf=r[1], bgzf=None)
            pipeline = True
    with core.workdir() as d:
        after_failure = len(case["gaf"]) % 4 == 0
        if after_failure:
            # an earlier call in this process that fails (mistyped GAF path) must not affect the next one
            core.call(_rs, d + "/g.gfa", d + "/no-such-file.gaf", outgaf=d + "/x.gaf")
        res, out, out_path, ind_path = c09.run_sort(case, d)
        core.check(res[0] == "ok", "sort did not complete: %s", res)
        core.check(out is not None, "sorted GAF missing or incomplete")
        core.check(os.path.exists(ind_path), "index file %s was not written", os.path.basename(ind_path))
        with open(ind_path, "rb") as f:
            ind = pickle.load(f)
        sns = []
        for l in out:
            t = [x for x in l.split("\t")[-3:] if x.startswith("sn:Z:")]
            core.check(len(t) >= 1, "output record without sn tag: %r", l)
            sns.append(t[-1][5:])
        present = set(sns) - {"unknown"}
        # an entry for every reference contig present; an entry for the 'unknown' bucket is neither required nor forbidden
        core.check(set(ind.keys()) - {"unknown"} == present, "index keys %s, contigs present in the output %s",
                   sorted(ind.keys()), sorted(present))
        nblocks = 1
        if case["bgzip_out"]:
            size = sum(len(l) + 1 for l in out)
            nblocks = size // 65280 + 1
        for sn in sorted(present):
            ords = [i for i, s in enumerate(sns) if s == sn]
            entry = ind[sn]
            core.check(isinstance(entry, (list, tuple)) and len(entry) == 2, "index entry of %s is %r", sn, entry)
            got = []
            for off in entry:
                r = core.call(read_at, out_path, off, case["bgzip_out"])
                core.check(r[0] == "ok", "seeking the sorted file to %r (entry of %s) failed: %s", off, sn, r)
                got.append(r[1])
            core.check(got[0] == out[ords[0]], "first offset of %s resolves to %r, first record of that contig is %r",
                       sn, got[0][:200], out[ords[0]][:200])
            core.check(got[1] == out[ords[-1]], "last offset of %s resolves to %r, last record of that contig is %r",
                       sn, got[1][:200], out[ords[-1]][:200])
    nodes = c08.parse_tagged_gfa(case["gfa"])
    exp = [c09.expected_tags(nodes, l) for l in case["gaf"]]
    cl = c09.classes_of(case, nodes, exp)
    cl.append("outind" if case.get("outind") else "default_gsi")
    if after_failure:
        cl.append("after_a_failed_call")
    if pipeline:
        cl.append("graph_tagged_by_order_gfa")
    if case["bgzip_out"] and nblocks >= 2:
        cl.append("bgzf_output_blocks>=2")
    if len(case["gaf"]) == 1:
        cl.append("single_record")
    # contigs whose records are interrupted by other records in the sorted output
    runs = {}
    for i, s in enumerate(sns):
        runs.setdefault(s, []).append(i)
    if any(v[-1] - v[0] + 1 != len(v) for k, v in runs.items() if k != "unknown"):
        cl.append("contig_run_interrupted")
    nontrivial = ">=2_contigs" in cl or "no_unknown_record" in cl or "bgzf_output_blocks>=2" in cl
    return core.Result(nontrivial, cl)
