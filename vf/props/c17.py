"""C17 - results do not depend on input compression."""

import gzip
import os
import pickle
import random

from hypothesis import strategies as st

from vf import bgzf, core, fakemp, gen_graph, idx, models, ordergfa, realign_common as rc
from vf.props import c08, c10

ID = "C17"
LEVEL = "exploration"
LEVEL_TEXT = (
    "Differential testing over compression configurations: one generated data set (tagged rGFA with sequences, GAF, reads, "
    "haplotag TSV, path list, node/region queries) is materialised as {plain, BGZF with generated block cuts} GAF x {plain, "
    "single-member gzip, multi-member gzip (bgzip)} graph, every subcommand is run on each variant, and the outputs are "
    "compared byte for byte; index files are compared through the records their offsets resolve to in their own file."
)
LEVEL_NOTE = "Runs stay inside each tool's passing domain (plain optional fields etc.) so that C17 isolates the compression dimension. Plain-gzip (non-BGZF) GAFs are documented as unsupported and not generated."
TECHNIQUE = "differential property testing (Hypothesis) across compression variants with generated BGZF block layouts; offsets compared after resolution"
RULE = (
    "Hypothesis-generated data set; GAF written plain and as BGZF with >=1 drawn cuts (cuts inside lines, >=2 data blocks; "
    "thorough adds a >64 KiB class through pysam's own writer), graph written as .gfa, .gfa.gz (one gzip member) and .gfa.gz "
    "(several members). Tools: view (whole, --format, -n, -r with the index built on the same variant), index, sort (+ .gsi, "
    "plain and --bgzip output), stat --cigar, realign, phase, find_path, order_gfa. Oracle: every output equals the "
    "plain/plain baseline; .gvi/.gsi associations equal after resolving each offset in its own file. Non-trivial = a record "
    "starts in a block other than the first and a line straddles a block boundary. Distinct by SHA-1 of the case."
    " Later additions: BGZF header bytes other than htslib's, sort to standard output, read names outside "
    "ASCII, blank lines in graphs; stored offsets are read back through the library inside the oracle."
)
ASSUMPTIONS = ["order_gfa output file names derive from the input file name; contents are compared per chromosome"]


def budget(tier):
    if tier == "quick":
        return {"examples": 220, "shards": 2}
    return {"examples": 1500, "shards": 16}


@st.composite
def strategy_(draw, tier):
    base = draw(rc.realign_inputs(min_records=2, max_records=12, max_ln=10, max_chroms=2))
    nodes, links = models.nodes_from_gfa_text(base["gfa"])
    # re-render the graph with BO/NO tags from the chain oracle so that sort accepts it
    g = {"nodes": {n: {"seq": d["seq"], "ln": d["ln"], "sn": d["sn"], "so": d["so"], "sr": d["sr"]} for n, d in nodes.items()},
         "links": [list(l) for l in links]}
    comps = {}
    from vf import graphalgo

    adj = graphalgo.make_adj(g["nodes"], g["links"])
    g["chroms"] = [{"name": "c%d" % i, "nodes": sorted(c)} for i, c in enumerate(graphalgo.components(g["nodes"], adj))]
    extra = c08.tag_graph(g)
    gfa = gen_graph.gfa_text(g, with_seq=True, extra_tags=extra, order_seed=draw(st.integers(0, 99)))
    if draw(st.integers(0, 4)) == 0:
        gfa = gfa[:-1]  # the last record is not newline-terminated
    lines = base["gaf"]
    f0 = [x for x in lines[0].split("\t") if not x.startswith("tp:A:")]
    f0[11] = "60"  # at least one primary record, so that stat has something to average
    lines[0] = "\t".join(f0)
    big = len(lines) >= 3 and draw(st.integers(0, 9 if tier == "quick" else 5)) == 0
    if big:
        # boundaries are where chunked readers go wrong: record k (not the last one) ends exactly on a
        # power-of-two / BGZF block-size boundary of the uncompressed stream, more records follow
        target = draw(st.sampled_from([65536, 65536, 65280, 131072, 32768]))
        k_ = draw(st.integers(0, len(lines) - 2))
        budget = target - sum(len(l) + 1 + 6 for l in lines[: k_ + 1])
        pads = []
        for _ in range(k_):
            x = draw(st.integers(0, budget))
            pads.append(x)
            budget -= x
        pads.append(budget)
        for q in range(k_ + 1):
            lines[q] = lines[q] + "\tzr:Z:" + "j" * pads[q]
        for q in range(k_ + 1, len(lines)):
            lines[q] = lines[q] + "\tzq:Z:" + "k" * draw(st.integers(0, 9000))
    if draw(st.integers(0, 3)) == 0:
        k2 = draw(st.integers(0, len(lines) - 1))
        lines[k2] = lines[k2] + " "  # a padded line: readers strip trailing blanks, for every kind of input
    size = sum(len(l) + 1 for l in lines)
    cuts = sorted(set(draw(st.lists(st.integers(1, size - 1), min_size=1, max_size=6))))
    ids = list(g["nodes"])
    qnodes = draw(st.lists(st.sampled_from(ids), min_size=1, max_size=3))
    contig = draw(st.sampled_from(sorted({d["sn"] for d in g["nodes"].values()})))
    segs = sorted((d["so"], d["so"] + d["ln"]) for d in g["nodes"].values() if d["sn"] == contig)
    a = draw(st.integers(0, segs[-1][1] - 1))
    b = draw(st.integers(a, segs[-1][1] - 1))
    gcuts = sorted(set(draw(st.lists(st.integers(1, max(1, len(gfa) - 1)), min_size=1, max_size=4))))
    names = [l.split("\t")[0] for l in lines]
    tsv = ["#readname\thaplotype\tphaseset\tchromosome"]
    for nm in names:
        k = draw(st.sampled_from(["H1", "H2", "none", "skip"]))
        if k == "skip":
            continue
        tsv.append("%s\t%s\t%s\tchr1" % (nm, k, "none" if k == "none" else "101"))
    paths = [l.split("\t")[5] for l in lines[:4]]
    return {"gfa": gfa, "gaf": lines, "fasta": base["fasta"], "cuts": cuts, "gfa_cuts": gcuts, "nodes": qnodes,
            "region": "%s:%d-%d" % (contig, a, b), "tsv": "\n".join(tsv) + "\n", "paths": paths,
            "pysam_writer": big, "bgzf_name": draw(st.sampled_from(["in.gaf.gz", "in.gaf.gz", "in.gaf.bgz", "in.gaf"])),
            # gzip header bytes that BGZF leaves to the writer (MTIME, XFL, OS)
            "bgzf_header": draw(st.sampled_from([None, None, [1700000000, 2, 3], [0, 4, 0]])),
            "gaf_no_final_newline": (not big) and draw(st.integers(0, 5)) == 0}


def strategy(tier):
    return strategy_(tier)


def write_variant(d, case, gaf_kind, gfa_kind, bgzf_name=None):
    os.makedirs(d, exist_ok=True)
    data = "".join(l + "\n" for l in case["gaf"]).encode()
    if case.get("gaf_no_final_newline"):
        data = data[:-1]  # the file does not end in a line feed; its BGZF copy holds the same bytes
    table = None
    if gaf_kind == "plain":
        gaf = d + "/in.gaf"
        with open(gaf, "wb") as f:
            f.write(data)
    else:
        gaf = d + "/" + (bgzf_name or case.get("bgzf_name", "in.gaf.gz"))
        if case.get("pysam_writer"):
            from pysam import libcbgzf

            w = libcbgzf.BGZFile(gaf, "wb")
            w.write(data)
            w.close()
            table = [(i * 65280, None) for i in range(len(data) // 65280 + 1)]
        else:
            table = bgzf.write_bgzf(gaf, data, case["cuts"], header=case.get("bgzf_header"))
    if gfa_kind == "plain":
        gfa = d + "/g.gfa"
        core.write_text(gfa, case["gfa"])
    elif gfa_kind == "gz":
        gfa = d + "/g.gfa.gz"
        with gzip.open(gfa, "wt") as f:
            f.write(case["gfa"])
    else:
        gfa = d + "/g.gfa.gz"
        bgzf.write_bgzf(gfa, case["gfa"].encode(), case["gfa_cuts"], header=case.get("bgzf_header"))
    core.write_text(d + "/reads.fa", case["fasta"])
    core.write_text(d + "/h.tsv", case["tsv"])
    core.write_text(d + "/paths.txt", "".join(p + "\n" for p in case["paths"]))
    return gaf, gfa, table


def resolve_gvi(gaf, ind_path):
    from gaftools.gaf import GAF

    with open(ind_path, "rb") as f:
        ind = pickle.load(f)
    out = {}
    reader = GAF(gaf)
    try:
        for k, offs in ind.items():
            if k == "ref_contig":
                out["ref_contig"] = sorted(offs)
                continue
            recs = []
            for o in offs:
                ra = core.call(reader.read_line, o)
                core.check(ra[0] == "ok", "offset %r stored in %s cannot be read back from %s: %s", o, os.path.basename(ind_path),
                           os.path.basename(gaf), ra)
                a = ra[1]
                recs.append(tuple(idx.alignment_columns(a)) if a is not None else None)
            out[repr(k)] = sorted(recs, key=repr)
    finally:
        reader.close()
    return out


def run_all(d, case, gaf_kind, gfa_kind):
    """Runs every tool on one variant; returns {tool: normalised output} (exceptions become part of the output)."""
    from gaftools.cli import find_path, index, phase, sort, stat

    gaf, gfa, table = write_variant(d, case, gaf_kind, gfa_kind)
    out = {}

    def put(name, res, value):
        out[name] = value if res[0] == "ok" else ("FAILED", res[0], str(res[1]).split(" at ")[0])

    res, lines = idx.run_view(d, gaf, gfa, d + "/v_whole.txt")
    put("view", res, lines)
    # the global --debug option changes what is logged, never what is written
    r = core.cli(["view", gaf, "-o", d + "/v_dbg.txt"], debug=True)
    put("--debug view", r, core.read_output(d + "/v_dbg.txt", "--debug view").split("\n")[:-1] if r[0] == "ok" else None)
    r = core.cli(["stat", gaf, "--cigar", "-o", d + "/stat_dbg.txt"], debug=True)
    put("--debug stat", r, core.read_output(d + "/stat_dbg.txt", "--debug stat") if r[0] == "ok" else None)
    res, lines = idx.run_view(d, gaf, gfa, d + "/v_fmt.txt", fmt="stable")
    put("view --format stable", res, lines)
    stable_path = d + "/stable.gaf"
    if lines is not None and res[0] == "ok":
        sdata = "".join(l + "\n" for l in lines).encode()
        if gaf_kind == "plain":
            with open(stable_path, "wb") as f:
                f.write(sdata)
        else:
            stable_path = d + "/stable" + os.path.splitext(gaf)[1].replace(".gaf", "") if gaf.endswith((".gz", ".bgz")) else d + "/stable.gaf"
            if stable_path == d + "/stable":
                stable_path = d + "/stable.gaf.gz"
            bgzf.write_bgzf(stable_path, sdata, case["cuts"], header=case.get("bgzf_header"))
        res2, l2 = idx.run_view(d, stable_path, gfa, d + "/v_fmt2.txt", fmt="unstable")
        put("view --format unstable", res2, l2)
        r = core.call(index.run, stable_path, gfa, d + "/stable.gvi")
        put("index (stable GAF)", r, resolve_gvi(stable_path, d + "/stable.gvi") if r[0] == "ok" else None)
    r = core.call(index.run, gaf, gfa, d + "/in.gvi")
    put("index", r, resolve_gvi(gaf, d + "/in.gvi") if r[0] == "ok" else None)
    if r[0] == "ok":
        res, lines = idx.run_view(d, gaf, gfa, d + "/v_n.txt", nodes=case["nodes"], index=d + "/in.gvi")
        out["view -n"] = (res[0], lines) if res[0] in ("ok", "cle") else ("FAILED", res)
        res, lines = idx.run_view(d, gaf, gfa, d + "/v_r.txt", regions=[case["region"]], index=d + "/in.gvi")
        out["view -r"] = (res[0], lines) if res[0] in ("ok", "cle") else ("FAILED", res)
        res, lines = idx.run_view(d, gaf, gfa, d + "/v_nf.txt", nodes=case["nodes"], index=d + "/in.gvi", fmt="stable")
        out["view -n --format"] = (res[0], lines) if res[0] in ("ok", "cle") else ("FAILED", res)
    for bg in (False, True):
        o = d + ("/sorted.gaf.gz" if bg else "/sorted.gaf")
        r = core.call(sort.run_sort, gfa, gaf, outgaf=o, outind=None, bgzip=bg)
        if r[0] != "ok":
            out["sort bgzip=%s" % bg] = ("FAILED", r)
            continue
        if bg:
            with gzip.open(o, "rt") as f:
                text = f.read()
        else:
            text = core.read_text(o)
        out["sort bgzip=%s" % bg] = text
        with open(o + ".gsi", "rb") as f:
            gsi = pickle.load(f)
        out["gsi bgzip=%s" % bg] = {k: [c10.read_at(o, off, bg) for off in v] for k, v in sorted(gsi.items())}
    # without --outgaf the sorted records go to standard output
    r = core.cli(["sort", gaf, gfa], capture_stdout=True)
    put("sort to standard output", r, r[1] if r[0] == "ok" else None)
    r = core.call(stat.run_stat, gaf, cigar_stat=True, output=d + "/stat.txt")
    put("stat", r, core.read_output(d + "/stat.txt", "stat") if r[0] == "ok" else None)
    sub = {"gfa": case["gfa"], "gaf": case["gaf"], "fasta": case["fasta"]}
    res, text = rc.run_realign(sub, d, platform=fakemp.Platform(fakemp.Chooser([])), cores=1, batch=3, sub="realigned.gaf",
                               gaf_name=os.path.basename(gaf), gfa_name=os.path.basename(gfa))
    put("realign", res, text)
    r = core.call(phase.run, gaf, d + "/h.tsv", d + "/phased.gaf")
    put("phase", r, core.read_output(d + "/phased.gaf", "phase") if r[0] == "ok" else None)
    r = core.call(find_path.run, gfa, d + "/paths.txt", output=d + "/fp.txt", fasta=True)
    put("find_path", r, core.read_output(d + "/fp.txt", "find_path") if r[0] == "ok" else None)
    nodes, links = models.nodes_from_gfa_text(case["gfa"])
    from vf.props import c06

    named = c06.name_components(nodes, links) or {}
    good = []
    for nm, comp in sorted(named.items()):
        dec = models.chain_decompose(nodes, links, comp)
        if dec["shape"] == "single" or (dec["shape"] == "chain" and dec["oriented"] and dec["monotone"]):
            good.append(nm)
    if good:
        for by in (True, False):
            res, files = ordergfa.run_order(d, case["gfa"], ",".join(good), by, with_sequence=True,
                                            fname=os.path.basename(gfa), sub="ord%d" % by, reuse_existing=True)
            norm = {}
            for fn, content in files.items():
                # the documented outputs, <name>-<chromosome>.gfa/.csv; the <name> part derives from the input file name and other
                # files a run may leave next to them (summaries, logs) are not results of the property
                if "-" in fn and fn.endswith((".gfa", ".csv")):
                    norm[fn.rsplit("-", 1)[-1]] = content
            put("order_gfa by_chrom=%s" % by, res, norm)
    return out, table


def run_big_sequential(case):
    """A file of more than 100 000 records through the commands that read a GAF front to back (stat, view, sort): plain
    against BGZF written by pysam."""
    import pysam
    from gaftools.cli import stat

    out = {}
    with core.workdir() as d:
        core.write_text(d + "/g.gfa", case["gfa"])
        core.write_text(d + "/in.gaf", "".join(l + "\n" for l in case["gaf"]))
        pysam.tabix_compress(d + "/in.gaf", d + "/in.gaf.gz", force=True)
        for kind, path in (("plain", d + "/in.gaf"), ("bgzf", d + "/in.gaf.gz")):
            r = core.call(stat.run_stat, path, cigar_stat=True, output=d + "/stat.txt")
            a = ("stat", r[0], core.read_output(d + "/stat.txt", "stat") if r[0] == "ok" else str(r[1])[:200])
            r, lines = idx.run_view(d, path, d + "/g.gfa", d + "/v.txt")
            b = ("view", r[0], len(lines or []), (lines or [None])[-1])
            r = core.cli(["sort", path, d + "/g.gfa"], capture_stdout=True)
            c = ("sort", r[0], hash(r[1]) if r[0] == "ok" else str(r[1])[:200])
            out[kind] = (a, b, c)
    for x, y in zip(out["plain"], out["bgzf"]):
        core.check(x[1] == "ok", "%s on the plain file of %d records failed: %s", x[0], len(case["gaf"]), x[2:])
        core.check(x == y, "%s differs between the plain file and its BGZF copy (%d records): %s vs %s", x[0], len(case["gaf"]),
                   str(x[1:])[:200], str(y[1:])[:200])
    return core.Result(True, ["records>100000", "pysam_written"])


def run_case(case):
    if case.get("kind") == "big_sequential":
        return run_big_sequential(case)
    with core.workdir() as d:
        import shutil

        # every variant is materialised under the SAME paths (wiped in between): a file name that held plain data a moment
        # ago now holds compressed data
        base, _ = run_all(d + "/v", case, "plain", "plain")
        failed = [n for n, v in base.items() if isinstance(v, tuple) and v and v[0] == "FAILED"]
        variants = [("bgzf", "plain"), ("plain", "gz"), ("bgzf", "bgz")]
        table = None
        for gk, fk in variants:
            shutil.rmtree(d + "/v", ignore_errors=True)
            got, t = run_all(d + "/v", case, gk, fk)
            table = table or t
            for name in base:
                core.check(name in got, "%s GAF / %s graph: %s produced no result", gk, fk, name)
                if got[name] != base[name]:
                    x_, y_ = base[name], got[name]
                    if isinstance(x_, dict) and isinstance(y_, dict):
                        # name the entry that differs (key order is not a difference)
                        ks = sorted(set(x_) | set(y_), key=repr)
                        kd = next(k for k in ks if x_.get(k, "<absent>") != y_.get(k, "<absent>"))
                        name = "%s [%s]" % (name, kd)
                        x_, y_ = x_.get(kd, "<absent>"), y_.get(kd, "<absent>")
                    a, b = repr(x_), repr(y_)
                    k = next((i for i, (x, y) in enumerate(zip(a, b)) if x != y), min(len(a), len(b)))
                    raise core.Violation("%s differs between plain/plain and %s GAF / %s graph: ...%s vs ...%s"
                                         % (name, gk, fk, a[max(0, k - 60):k + 120], b[max(0, k - 60):k + 120]))
        # plain file and its BGZF copy side by side, indexed with the default index name, queried without -i
        sd = d + "/same"
        gaf_p, gfa_p, _ = write_variant(sd, case, "plain", "plain")
        gaf_z, _, _ = write_variant(sd, case, "bgzf", "plain", bgzf_name="in.gaf.gz")
        from gaftools.cli import index as _index

        r1 = core.call(_index.run, gaf_p, gfa_p)
        r2 = core.call(_index.run, gaf_z, gfa_p)
        core.check(r1[0] == "ok" and r2[0] == "ok", "index with the default output name failed: %s %s", r1, r2)
        resp, outp = idx.run_view(sd, gaf_p, gfa_p, sd + "/vp.txt", nodes=case["nodes"])
        resz, outz = idx.run_view(sd, gaf_z, gfa_p, sd + "/vz.txt", nodes=case["nodes"])
        core.check((resp[0], outp) == (resz[0], outz),
                   "view -n with default index names differs between a plain GAF and its BGZF copy in the same directory: %s %r vs %s %r",
                   resp, (outp or [])[:2], resz, (outz or [])[:2])
        want_n = base.get("view -n")
        if isinstance(want_n, tuple) and want_n[0] in ("ok", "cle"):
            core.check((resp[0], outp) == (want_n[0], want_n[1]), "view -n with the default index name differs from view -n -i <index>")
    cl = ["tools:%d" % len(base)] + ["baseline_failure:" + n for n in failed]
    starts = []
    pos = 0
    for l in case["gaf"]:
        starts.append(pos)
        pos += len(l) + 1
    if case.get("bgzf_header"):
        cl.append("bgzf_header_not_htslib_default")
    if case.get("pysam_writer"):
        bounds = [i * 65280 for i in range(1, pos // 65280 + 1)]
        cl.append("pysam_written_>64KiB")
    else:
        bounds = [c for c in case["cuts"] if 0 < c < pos]
    after = any(s >= bounds[0] for s in starts) if bounds else False
    straddle = any(b not in starts for b in bounds)
    if after:
        cl.append("record_starts_after_block1")
    if straddle:
        cl.append("line_straddles_block")
    cl.append("gaf_blocks:%d" % min(len(bounds) + 1, 5))
    ends = set()
    p_ = 0
    for l in case["gaf"]:
        p_ += len(l) + 1
        ends.add(p_)
    if ends & {65536, 65280, 131072, 32768}:
        cl.append("record_ends_on_64KiB_or_block_boundary")
    if not case["gfa"].endswith("\n"):
        cl.append("graph_without_final_newline")
    if any(l.endswith(" ") for l in case["gaf"]):
        cl.append("line_with_trailing_blank")
    cl.append("bgzf_name:" + case.get("bgzf_name", "in.gaf.gz"))
    return core.Result(after and straddle, cl)


def enumerations(tier, shard, nshards):
    if shard != 0:
        return

    def big():
        import random

        rnd = random.Random(17)
        order = [rnd.randrange(len(c08.POOL)) for _ in range(100003)]
        gaf = [c08.POOL[k].replace("p%d\t" % k, "b%d\t" % i, 1) + "\ttp:A:P\tcg:Z:%s=" % c08.POOL[k].split("\t")[9] for i, k in enumerate(order)]
        yield {"kind": "big_sequential", "gfa": c08.POOL_GFA, "gaf": gaf}

    yield ("100 003 records: stat, whole-file view and sort on the plain file and on its BGZF copy", big(), True)
