"""C04 - view --node returns exactly the records touching the nodes."""

from hypothesis import strategies as st

from vf import conv, core, idx, models

ID = "C04"
LEVEL = "exploration"
LEVEL_TEXT = (
    "Generated-input search over indexed GAFs (stable/unstable, plain/BGZF) and node lists (aligned, unaligned, repeated, "
    "any order, incl. walks revisiting a node); oracle = definition-level selection in file order, exact content equality "
    "without --format, and the metamorphic relation 'convert whole file then select' with --format."
)
LEVEL_NOTE = "The index is built by the real `gaftools index` on the same file (C03 judges the index itself); whole-file conversion used for the --format comparison is gaftools' own (judged by C01/C02)."
TECHNIQUE = "property-based testing (Hypothesis) with a definition-level selection oracle + metamorphic convert-then-select relation"
RULE = (
    "Hypothesis-generated rGFA (with hairpin/back links so walks can revisit nodes) + GAF of 1-30 records, index built by "
    "`gaftools index`; 3 queries of 1-5 node ids each (aligned, unaligned, repeated, any order). view -n without format must "
    "print exactly the records traversing >=1 named node, once each, in file order, content equal to the input; with --format "
    "equal to whole-file conversion filtered to the same ordinals; all named nodes unaligned => 'No alignments found' and no "
    "output; no selection and no format => the file, record for record. Any other exception is a violation. Non-trivial = a "
    "query that hits >=1 record and misses >=1, or names an unaligned node, or hits a record that visits a queried node "
    "twice. Distinct by SHA-1 of the case."
    " Later additions: index GAF + view GAF -n through a symbolic link with the default index name, an index "
    "path that held another index, one-character and comma-containing segment names, records starting at BGZF "
    "block starts, non-htslib BGZF header bytes."
)
ASSUMPTIONS = ["a graph node literally named 'r' collides with the pickled 'ref_contig' key lookup and is not generated"]


def budget(tier):
    if tier == "quick":
        return {"examples": 450, "shards": 2}
    return {"examples": 2000, "shards": 16}


@st.composite
def strategy_(draw, tier):
    g, case = draw(idx.indexed_file(tier, max_records=20))
    ids = list(g["nodes"])
    queries = []
    twice = case.pop("_twice")
    for k in range(3):
        if k == 0 and twice:
            # a single -n for a node some walk visits twice (the shape a raw offset list would print twice)
            q = [draw(st.sampled_from(twice))] * draw(st.integers(1, 2))
        else:
            q = draw(st.lists(st.sampled_from(ids), min_size=1, max_size=5))
        queries.append(q)
    case["queries"] = queries
    case["via"] = draw(st.sampled_from(["api", "api", "cli", "cli_stdout"]))
    return case


def strategy(tier):
    return strategy_(tier)


def check_selection(what, res, out, want_lines):
    if not want_lines:
        # through the command line the anticipated error is logged and turned into exit status 1
        # "reports that nothing was found": an anticipated command-line error (any wording), i.e. CommandLineError from the
        # API or a non-zero exit status through the command line - not a normal return and not an internal error
        core.check(res[0] == "cle" or (res[0] == "exit" and res[1] not in (0, None)),
                   "%s: nothing matches, expected the command to report that nothing was found, got %s", what, res)
        core.check(not out, "%s: nothing matches but output was written: %r", what, out)
        return
    core.check(res[0] == "ok", "%s failed: %s", what, res)
    core.check(out is not None, "%s: incomplete output", what)
    core.check(out == want_lines, "%s:\n got      %r\n expected %r", what, out, want_lines)


def run_case(case):
    nodes, _ = models.nodes_from_gfa_text(case["gfa"])
    lines = case["gaf"]
    trav = [idx.traversed(nodes, l) for l in lines]
    fmt = "unstable" if case["stable"] else "stable"
    classes = set()
    nontrivial = False
    via = case.get("via", "api")
    classes.add("via:" + via)
    with core.workdir() as d:
        gaf_path, table = idx.materialize(d, case)
        gfa_path = d + "/g.gfa"
        stale = len(lines) % 3 == 0
        if stale:
            classes.add("index_path_held_another_index")
        r = idx.build_index(gaf_path, gfa_path, d + "/in.gvi", via="api" if via == "api" else "cli", stale=stale)
        core.check(r[0] == "ok", "index failed: %s", r)
        # whole file, no format
        res, out = idx.run_view(d, gaf_path, gfa_path, d + "/whole.txt", via=via)
        core.check(res[0] == "ok" and out == lines, "view without selection and format does not reproduce the file: %s %r", res, out)
        # whole-file conversion (reference for the metamorphic relation)
        res, whole = idx.run_view(d, gaf_path, gfa_path, d + "/conv.txt", fmt=fmt)
        core.check(res[0] == "ok" and whole is not None and len(whole) == len(lines),
                   "whole-file view --format %s failed: %s", fmt, res)
        for qi, q in enumerate(case["queries"]):
            qs = set(q)
            ords = [i for i, t in enumerate(trav) if t & qs]
            res, out = idx.run_view(d, gaf_path, gfa_path, d + "/sel%d.txt" % qi, nodes=q, index=d + "/in.gvi", via=via)
            check_selection("view -n %s" % " -n ".join(q), res, out, [idx.expected_plain(lines[i]) for i in ords])
            res, out = idx.run_view(d, gaf_path, gfa_path, d + "/self%d.txt" % qi, nodes=q, index=d + "/in.gvi", fmt=fmt, via=via)
            check_selection("view --format %s -n %s" % (fmt, " -n ".join(q)), res, out, [whole[i] for i in ords])
            unaligned = any(not any(n in t for t in trav) for n in qs)
            revisit = False
            for i in ords:
                path = lines[i].split("\t")[5]
                if ":" not in path and (">" in path or "<" in path):
                    ids_ = [n for _, n in models.parse_path(path)]
                    if any(ids_.count(n) > 1 for n in qs):
                        revisit = True
            if ords and len(ords) < len(lines):
                classes.add("hit_and_miss")
                nontrivial = True
            if unaligned:
                classes.add("unaligned_node_named")
                nontrivial = True
            if revisit:
                classes.add("queried_node_visited_twice")
                nontrivial = True
            if not ords:
                classes.add("nothing_found")
            if len(q) != len(qs):
                classes.add("repeated_node_in_query")
            if len(qs) == 1:
                classes.add("single_node_query")
        if case["queries"] and len(lines) % 2 == 0:
            # the documented short form: `index GAF GFA` then `view GAF -n ...`, index found under its default name;
            # here the GAF is reached through a symbolic link (work directories of workflow managers)
            import os
            import shutil

            os.makedirs(d + "/store")
            os.makedirs(d + "/work")
            real = d + "/store/reads-%d%s" % (len(lines), os.path.splitext(gaf_path)[1] if case.get("bgzf") else ".gaf")
            shutil.copy(gaf_path, real)
            link = d + "/work/" + os.path.basename(gaf_path)
            os.symlink(real, link)
            from gaftools.cli import index as _index

            r = core.cli(["index", link, gfa_path]) if via != "api" else core.call(_index.run, link, gfa_path)
            core.check(r[0] == "ok", "index on a symbolic link to the GAF failed: %s", r)
            q = case["queries"][0]
            ords = [i for i, t in enumerate(trav) if t & set(q)]
            res, out = idx.run_view(d, link, gfa_path, d + "/work/sel.txt", nodes=q, via=via)
            check_selection("index GAF; view GAF -n %s (default index name, GAF is a symbolic link)" % " -n ".join(q), res, out,
                            [idx.expected_plain(lines[i]) for i in ords])
            classes.add("default_index_name_via_symlink")
    classes |= set(idx.file_classes(case, table))
    return core.Result(nontrivial, sorted(classes))


def enumerations(tier, shard, nshards):
    sizes = [4500] if tier == "quick" else [999, 1000, 1001, 4096, 4097, 9000]

    def gen():
        k = 0
        for n in sizes:
            for stable in (False, True):
                k += 1
                if k % nshards != shard:
                    continue
                g, case = idx.big_file_case(n, n, stable)
                ids = list(g["nodes"])
                case["queries"] = [ids, ["s6"], ["h1", "s12", "s1"]]
                yield case

    yield ("large files (%s records, BGZF in 20 KB blocks, stable and unstable): all nodes / one node / three nodes" % sizes,
           gen(), True)
