"""
Definition-level graph oracles: connected components, articulation points, blocks.

adj: dict node -> set of neighbour nodes (undirected, may contain the node itself for self-links).
The brute-force versions follow the definitions literally; lowpoint() is the textbook
recursive Hopcroft-Tarjan used for larger graphs and cross-validated against the brute force.
"""

import itertools
import sys


def make_adj(node_ids, links):
    adj = {n: set() for n in node_ids}
    for l in links:
        a, b = l[0], l[2]
        if a in adj and b in adj:
            adj[a].add(b)
            adj[b].add(a)
    return adj


def components(nodes, adj):
    nodes = set(nodes)
    seen = set()
    out = []
    for n in sorted(nodes):
        if n in seen:
            continue
        comp = set()
        stack = [n]
        while stack:
            x = stack.pop()
            if x in comp:
                continue
            comp.add(x)
            for y in adj[x]:
                if y in nodes and y not in comp:
                    stack.append(y)
        seen |= comp
        out.append(comp)
    return out


def connected(nodes, adj):
    nodes = set(nodes)
    if not nodes:
        return True
    return len(components(nodes, adj)) == 1


def articulation_brute(nodes, adj):
    """v is an articulation point iff deleting it disconnects its component."""
    nodes = set(nodes)
    out = set()
    for comp in components(nodes, adj):
        for v in comp:
            if len(comp) > 1 and not connected(comp - {v}, adj):
                out.add(v)
    return out


def _biconnected_set(sub, adj):
    """Induced subgraph on sub (>=2 nodes) is connected and stays connected after deleting any one vertex."""
    if len(sub) == 2:
        a, b = tuple(sub)
        return b in adj[a]
    if not connected(sub, adj):
        return False
    return all(connected(sub - {v}, adj) for v in sub)


def blocks_brute(nodes, adj):
    """Maximal vertex sets that are biconnected (size-2 sets need a link). Exponential: <= ~9 nodes."""
    nodes = sorted(set(nodes))
    good = []
    for k in range(len(nodes), 1, -1):
        for sub in itertools.combinations(nodes, k):
            s = frozenset(sub)
            if any(s <= g for g in good):
                continue
            if _biconnected_set(set(s), adj):
                good.append(s)
    return set(good)


def lowpoint(nodes, adj):
    """Textbook recursive algorithm. Returns (articulation points, set of frozenset blocks)."""
    nodes = set(nodes)
    sys.setrecursionlimit(max(10000, 4 * len(nodes) + 100))
    disc = {}
    low = {}
    stack = []
    blocks = set()
    art = set()

    def dfs(u, parent):
        disc[u] = low[u] = len(disc)
        children = 0
        for v in sorted(adj[u]):
            if v == u or v not in nodes:
                continue
            if v not in disc:
                children += 1
                stack.append((u, v))
                dfs(v, u)
                low[u] = min(low[u], low[v])
                if low[v] >= disc[u]:
                    if parent is not None:
                        art.add(u)
                    b = set()
                    while True:
                        e = stack.pop()
                        b |= set(e)
                        if e == (u, v):
                            break
                    blocks.add(frozenset(b))
            elif v != parent and disc[v] < disc[u]:
                stack.append((u, v))
                low[u] = min(low[u], disc[v])
        if parent is None and children > 1:
            art.add(u)

    for n in sorted(nodes):
        if n not in disc:
            dfs(n, None)
    return art, blocks


def lowpoint_iter(nodes, adj):
    """Iterative variant for big graphs (same algorithm, explicit stack)."""
    nodes = set(nodes)
    disc = {}
    low = {}
    art = set()
    blocks = set()
    for root in sorted(nodes):
        if root in disc:
            continue
        disc[root] = low[root] = len(disc)
        estack = []
        root_children = 0
        stack = [(root, None, iter(sorted(adj[root])))]
        while stack:
            u, parent, it = stack[-1]
            advanced = False
            for v in it:
                if v == u or v not in nodes:
                    continue
                if v not in disc:
                    disc[v] = low[v] = len(disc)
                    estack.append((u, v))
                    stack.append((v, u, iter(sorted(adj[v]))))
                    advanced = True
                    break
                elif v != parent and disc[v] < disc[u]:
                    estack.append((u, v))
                    low[u] = min(low[u], disc[v])
            if advanced:
                continue
            stack.pop()
            if stack:
                p = stack[-1][0]
                low[p] = min(low[p], low[u])
                if low[u] >= disc[p]:
                    if p != root:
                        art.add(p)
                    else:
                        root_children += 1
                    b = set()
                    while True:
                        e = estack.pop()
                        b |= set(e)
                        if e == (p, u):
                            break
                    blocks.add(frozenset(b))
        if root_children > 1:
            art.add(root)
    return art, blocks
