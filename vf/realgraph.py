"""Windows of the real pangenome graph shipped with the repository's tests (tests/data/large-graph-chr1.gfa.gz:
90 015 segments, 129 941 links, one chromosome whose bubble chain has 35 887 elements). Used by thorough tiers.

A window is a run of consecutive chain elements that starts and ends with a scaffold node, so it is itself a
linear bubble chain; segments keep their real names, lengths, contigs and offsets."""

import gzip
import os

from vf import core, models

_CACHE = {}


def load():
    if "g" in _CACHE:
        return _CACHE["g"]
    path = os.path.join(core.REPO, "tests", "data", "large-graph-chr1.gfa.gz")
    with gzip.open(path, "rt") as f:
        text = f.read()
    nodes, links = models.nodes_from_gfa_text(text)
    dec = models.chain_decompose(nodes, links, set(nodes))
    if dec["shape"] != "chain":
        raise RuntimeError("the real graph is not a chain: %s" % dec.get("why"))
    out_links = {}
    for l in links:
        out_links.setdefault(l[0], []).append(l)
        if l[2] != l[0]:
            out_links.setdefault(l[2], []).append(l)
    g = {"nodes": nodes, "links": links, "elements": dec["elements"], "by_node": out_links, "text": text}
    _CACHE["g"] = g
    return g


def n_elements():
    return len(load()["elements"])


def window(start, size, seq_seed=None, max_total=150000):
    """Graph model (as vf.gen_graph produces) of chain elements [a, b] with both ends scaffold nodes.
    With seq_seed the segments get synthetic sequences of their real lengths (the shipped graph has none); the window is
    then shrunk until its total length is at most max_total."""
    g = load()
    els = g["elements"]
    a = max(0, min(start, len(els) - 1))
    while a < len(els) and els[a][0] != "s":
        a += 1
    b = min(a + max(size, 2), len(els) - 1)
    while b > a and els[b][0] != "s":
        b -= 1
    import random

    while True:
        ids = []
        for kind, val in els[a : b + 1]:
            ids += [val] if kind == "s" else list(val)
        if seq_seed is None or sum(g["nodes"][n]["ln"] for n in ids) <= max_total or b - a <= 2:
            break
        b -= 1
        while b > a and els[b][0] != "s":
            b -= 1
    idset = set(ids)
    rnd = random.Random(seq_seed)
    nodes = {}
    for n in ids:
        d = g["nodes"][n]
        seq = "*"
        if seq_seed is not None:
            seq = "".join(rnd.choices("ACGT", k=min(d["ln"], max_total)))
        nodes[n] = {"seq": seq, "ln": len(seq) if seq_seed is not None else d["ln"], "sn": d["sn"], "so": d["so"], "sr": d["sr"]}
    if seq_seed is not None:
        # conversion needs rank-0 contigs tiled from 0: re-base the reference offsets of the window
        ref = sorted((d["so"], n) for n, d in nodes.items() if d["sr"] == 0)
        pos = 0
        for _, n in ref:
            nodes[n]["so"] = pos
            pos += nodes[n]["ln"]
    seen = set()
    links = []
    for n in ids:
        for l in g["by_node"].get(n, ()):
            if l[0] in idset and l[2] in idset and l not in seen:
                seen.add(l)
                links.append(list(l))
    return {"nodes": nodes, "links": links, "chroms": [{"name": "chr1", "nodes": ids}], "real_window": [a, b]}
