"""
Reference models / oracles, all independent of gaftools (DESIGN 4.5).
"""

import re

FLIP = {"+": "-", "-": "+"}
COMP = str.maketrans("ACGTNacgtnSWsw", "TGCANtgcanSWsw")  # S (G/C) and W (A/T) are their own complement


def revcomp(s):
    return s[::-1].translate(COMP)


# ------------------------------------------------------------------------------------------
# link model


def canon_link(a, oa, b, ob):
    """The two declarations of one adjacency have one canonical form."""
    x = (a, oa, b, ob)
    y = (b, FLIP[ob], a, FLIP[oa])
    return min(x, y)


class LinkModel:
    """L a oa b ob permits the oriented steps (a,oa)->(b,ob) and (b,!ob)->(a,!oa)."""

    def __init__(self, links):
        self.succ = {}
        for a, oa, b, ob in links:
            self.succ.setdefault((a, oa), set()).add((b, ob))
            self.succ.setdefault((b, FLIP[ob]), set()).add((a, FLIP[oa]))

    def steps(self, node, orient):
        return sorted(self.succ.get((node, orient), ()))

    def is_walk(self, steps):
        """steps: list of (orient '>'|'<', node)"""
        for (o1, n1), (o2, n2) in zip(steps, steps[1:]):
            a = "+" if o1 == ">" else "-"
            b = "+" if o2 == ">" else "-"
            if (n2, b) not in self.succ.get((n1, a), ()):
                return False
        return True


def parse_path(path):
    """'>a<b' -> [('>','a'),('<','b')]"""
    return [(m[0], m[1:]) for m in re.findall(r"[><][^><]+", path)]


def path_str(steps):
    return "".join(o + n for o, n in steps)


# ------------------------------------------------------------------------------------------
# spelling


def spell_unstable(nodes, steps):
    out = []
    for o, n in steps:
        s = nodes[n]["seq"]
        out.append(s if o == ">" else revcomp(s))
    return "".join(out)


def base_map(nodes):
    """(contig, pos) -> base, from the forward sequence of every segment."""
    m = {}
    for n, d in nodes.items():
        for i, c in enumerate(d["seq"]):
            m[(d["sn"], d["so"] + i)] = c
    return m


def contig_lengths(nodes):
    """Sum of LN over the segments of each contig."""
    out = {}
    for d in nodes.values():
        out[d["sn"]] = out.get(d["sn"], 0) + d["ln"]
    return out


def contig_rank(nodes):
    return {d["sn"]: d["sr"] for d in nodes.values()}


STABLE_STEP = re.compile(r"([><])([^><]+):(\d+)-(\d+)$")


def parse_stable_path(path):
    """Returns ('bare', contig) or ('split', [(orient, contig, s, e), ...])."""
    if ">" not in path and "<" not in path:
        return ("bare", path)
    parts = re.findall(r"[><][^><]+", path)
    out = []
    for p in parts:
        m = STABLE_STEP.match(p)
        if not m:
            raise ValueError("not a stable step: %r" % p)
        out.append((m.group(1), m.group(2), int(m.group(3)), int(m.group(4))))
    return ("split", out)


def fetch(bmap, contig, s, e):
    out = []
    for i in range(s, e):
        c = bmap.get((contig, i))
        if c is None:
            return None
        out.append(c)
    return "".join(out)


def spelled_locus_stable(bmap, strand, path, start, end):
    """The aligned target bases in read orientation for a stable record, or None if the record
    designates positions that do not exist."""
    kind, val = parse_stable_path(path)
    if kind == "bare":
        s = fetch(bmap, val, start, end)
        if s is None:
            return None
        return s if strand == "+" else revcomp(s)
    pieces = []
    for o, c, s, e in val:
        t = fetch(bmap, c, s, e)
        if t is None:
            return None
        pieces.append(t if o == ">" else revcomp(t))
    full = "".join(pieces)
    if not (0 <= start <= end <= len(full)):
        return None
    sub = full[start:end]
    return sub if strand == "+" else revcomp(sub)


def stable_path_length(nodes, path):
    kind, val = parse_stable_path(path)
    if kind == "bare":
        return contig_lengths(nodes).get(val)
    return sum(e - s for _, _, s, e in val)


# ------------------------------------------------------------------------------------------
# canonical stable form of an unstable record (the model's own unstable -> stable)


def canonical_stable(nodes, steps, ps, pe):
    """Returns (strand, path, length, start, end) following the documented conventions:
    consecutive same-contig same-orientation abutting intervals are merged; a single merged
    interval on a rank-0 contig becomes the bare contig name with contig coordinates."""
    ivs = []
    for o, n in steps:
        d = nodes[n]
        iv = [o, d["sn"], d["so"], d["so"] + d["ln"]]
        if ivs and ivs[-1][0] == o and ivs[-1][1] == iv[1]:
            last = ivs[-1]
            if o == ">" and last[3] == iv[2]:
                last[3] = iv[3]
                continue
            if o == "<" and last[2] == iv[3]:
                last[2] = iv[2]
                continue
        ivs.append(iv)
    total = sum(nodes[n]["ln"] for _, n in steps)
    rank = contig_rank(nodes)
    if len(ivs) == 1 and rank[ivs[0][1]] == 0:
        o, c, s, e = ivs[0]
        clen = contig_lengths(nodes)[c]
        if o == ">":
            return ("+", c, clen, s + ps, s + pe)
        return ("-", c, clen, s + total - pe, s + total - ps)
    path = "".join("%s%s:%d-%d" % (o, c, s, e) for o, c, s, e in ivs)
    return ("+", path, total, ps, pe)


# ------------------------------------------------------------------------------------------
# CIGAR helpers


CIG = re.compile(r"(\d+)([=XIDMNSHP])")  # every SAM operation


def parse_cigar(cg):
    ops = [(int(n), op) for n, op in CIG.findall(cg)]
    if "".join("%d%s" % x for x in ops) != cg:
        raise ValueError("bad cigar %r" % cg)
    return ops


def reverse_cigar(cg):
    return "".join("%d%s" % x for x in reversed(parse_cigar(cg)))


def gap_affine_cost(ops, mismatch=4, gap_open=6, gap_ext=2):
    cost = 0
    for n, op in ops:
        if op == "X":
            cost += mismatch * n
        elif op in "ID":
            cost += gap_open + gap_ext * n
    return cost


# ------------------------------------------------------------------------------------------
# GAF line helpers


def split_gaf(line):
    f = line.rstrip("\n").split("\t")
    return f[:12], f[12:]


def overlaps(a_s, a_e, b_s, b_e):
    return a_s < b_e and b_s < a_e


def nodes_traversed_stable(nodes, strand, path, start, end):
    """Set of node ids whose stable interval is overlapped by one of the record's intervals
    (or by the [start,end) span of a bare contig)."""
    kind, val = parse_stable_path(path)
    ivs = [(val, start, end)] if kind == "bare" else [(c, s, e) for _, c, s, e in val]
    out = set()
    for n, d in nodes.items():
        for c, s, e in ivs:
            if d["sn"] == c and overlaps(d["so"], d["so"] + d["ln"], s, e):
                out.add(n)
    return out


# ------------------------------------------------------------------------------------------
# bubble chains (oracle for order_gfa; also used to tag graphs for sort)


def chain_decompose(nodes, links, comp):
    """Decompose one component into its chain of scaffold nodes and bubbles, from the definitions.

    Returns a dict with
      shape: 'single' | 'chain' | 'noartic' | 'nonchain'
      art, blocks
      elements (shape == 'chain'): list of ('s', node) | ('b', sorted inner nodes), in reference order
      oriented: False when fewer than two elements carry a reference coordinate (order undefined)
      monotone: reference coordinates strictly increase along the oriented chain
      scaffold_sn: set of SN of the articulation points
    """
    from vf import graphalgo

    comp = set(comp)
    adj = graphalgo.make_adj(comp, links)
    if len(comp) == 1:
        return {"shape": "single", "art": set(), "blocks": set(), "elements": [("s", next(iter(comp)))],
                "oriented": True, "monotone": True, "scaffold_sn": set()}
    if len(comp) <= 60:
        art, blocks = graphalgo.lowpoint(comp, adj)
    else:
        art, blocks = graphalgo.lowpoint_iter(comp, adj)
    out = {"art": art, "blocks": blocks, "scaffold_sn": {nodes[a]["sn"] for a in art}}
    if not art:
        out["shape"] = "noartic"
        return out
    # scaffold graph
    sadj = {("s", a): set() for a in art}
    for b in blocks:
        inner = b - art
        ends = b & art
        if not inner:
            if len(ends) != 2:
                out["shape"] = "nonchain"
                out["why"] = "block without inner nodes has %d articulation points" % len(ends)
                return out
            x, y = tuple(ends)
            sadj[("s", x)].add(("s", y))
            sadj[("s", y)].add(("s", x))
        else:
            key = ("b", tuple(sorted(inner)))
            sadj[key] = set()
            for e in ends:
                sadj[key].add(("s", e))
                sadj[("s", e)].add(key)
    deg1 = [k for k, v in sadj.items() if len(v) == 1]
    deg2 = [k for k, v in sadj.items() if len(v) == 2]
    if len(deg1) != 2 or len(deg2) != len(sadj) - 2:
        out["shape"] = "nonchain"
        out["why"] = "scaffold graph is not a path (deg1=%d deg2=%d of %d)" % (len(deg1), len(deg2), len(sadj))
        return out
    # walk the path
    order = [min(deg1)]
    seen = {order[0]}
    while True:
        nxt = [k for k in sadj[order[-1]] if k not in seen]
        if not nxt:
            break
        order.append(nxt[0])
        seen.add(nxt[0])
    if len(order) != len(sadj):
        out["shape"] = "nonchain"
        out["why"] = "scaffold graph not connected"
        return out
    ref_sn = out["scaffold_sn"]
    coords = []
    for kind, val in order:
        if kind == "s":
            coords.append(nodes[val]["so"])
        else:
            on_ref = [nodes[n]["so"] for n in val if nodes[n]["sn"] in ref_sn and nodes[n]["sr"] == 0]
            coords.append(min(on_ref) if on_ref else None)
    defined = [c for c in coords if c is not None]
    out["shape"] = "chain"
    out["oriented"] = len(defined) >= 2 and len(ref_sn) == 1
    if len(defined) >= 2 and defined[0] > defined[-1]:
        order.reverse()
        coords.reverse()
        defined.reverse()
    out["monotone"] = all(a < b for a, b in zip(defined, defined[1:]))
    out["elements"] = [(k, list(v) if k == "b" else v) for k, v in order]
    # did the walk start (lowest key end) at the high-SO end?  (class label for the DFS-reversal branch)
    return out


def expected_bo_no(dec, bo_start=0):
    """node -> (BO, NO) the way the documentation describes it, for a 'chain' or 'single' decomposition."""
    out = {}
    bo = bo_start
    for kind, val in dec["elements"]:
        if kind == "s":
            out[val] = (bo, 0)
        else:
            for i, n in enumerate(sorted(val)):
                out[n] = (bo, i + 1)
        bo += 1
    return out, bo


# ------------------------------------------------------------------------------------------
# independent GFA text parser


def parse_gfa_text(text):
    """Returns (segments: {id: (seq, [tags])}, s_order: [ids], links: [(canon (a,oa,b,ob), overlap, tuple(tags))],
    kinds: sequence of 'S'/'L' in file order)."""
    segs = {}
    s_order = []
    links = []
    kinds = []
    for line in text.split("\n"):
        if not line:
            continue
        f = line.split("\t")
        if f[0] == "S":
            if f[1] in segs:
                raise ValueError("segment %s declared twice" % f[1])
            segs[f[1]] = (f[2], f[3:])
            s_order.append(f[1])
            kinds.append("S")
        elif f[0] == "L":
            links.append((canon_link(f[1], f[2], f[3], f[4]), f[5], tuple(f[6:])))
            kinds.append("L")
    return segs, s_order, links, kinds


def nodes_from_gfa_text(text):
    """rGFA text -> ({id: {seq, ln, sn, so, sr, tags}}, links [(a,oa,b,ob)]) with the S-line tags decoded."""
    nodes = {}
    links = []
    for line in text.split("\n"):
        f = line.split("\t")
        if f[0] == "S":
            d = {"seq": f[2], "tags": {}}
            for t in f[3:]:
                k, ty, v = t.split(":", 2)
                d["tags"][k] = int(v) if ty == "i" else v
            d["ln"] = d["tags"].get("LN", len(f[2]) if f[2] != "*" else 0)
            d["sn"] = d["tags"].get("SN")
            d["so"] = d["tags"].get("SO")
            d["sr"] = d["tags"].get("SR")
            nodes[f[1]] = d
        elif f[0] == "L":
            links.append((f[1], f[2], f[3], f[4]))
    return nodes, links


def masked_fields(tags, keep_cg=True, drop=("ds:Z:",)):
    """Optional fields with the CIGAR value masked (it may be rewritten but keeps its place) and exempt tags dropped."""
    out = []
    for t in tags:
        if any(t.startswith(d) for d in drop):
            continue
        if t.startswith("cg:Z:"):
            if keep_cg:
                out.append("cg:Z:<cigar>")
            continue
        out.append(t)
    return out
