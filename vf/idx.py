"""Shared pieces of the index / view --node / view --region checks (C03, C04, C05)."""

import os
import pickle

from hypothesis import strategies as st

from vf import bgzf, conv, core, gen_gaf, gen_graph, models


@st.composite
def indexed_file(draw, tier, max_records=30, min_records=1):
    """graph + GAF (unstable or model-stable; plain or BGZF with drawn block cuts)."""
    g = draw(gen_graph.any_graph(tier, max_chroms=2, max_elements=5, cycles=True))
    lm = models.LinkModel(g["links"])
    n = draw(st.integers(min_records, max_records))
    stable = draw(st.booleans())
    # a pool of start nodes gives nodes with several records and nodes with none
    ids = list(g["nodes"])
    pool = draw(st.lists(st.sampled_from(ids), min_size=1, max_size=max(1, len(ids) // 2), unique=True))
    lines = []
    revisit_file = draw(st.integers(0, 2)) == 0
    closed = gen_gaf.revisit_walks(g, lm) if revisit_file else []
    twice = set()
    for i in range(n):
        forced = None
        if closed and draw(st.integers(0, 3)) == 0:
            forced = draw(st.sampled_from(closed))
        rec = draw(gen_gaf.record(g, lm, name="q%d" % i, max_len=draw(st.sampled_from([1, 3, 8])),
                                  start_pool=pool if draw(st.integers(0, 5)) else None,
                                  revisit_bias=revisit_file, steps=forced))
        ids_ = [x for _, x in rec["steps"]]
        twice |= {x for x in ids_ if ids_.count(x) > 1}
        pad = draw(st.sampled_from([0, 0, 0, 30, 300, 3000] + ([70000] if tier == "thorough" else [])))
        if pad:
            rec["tags"] = rec["tags"] + ["zq:Z:" + "k" * pad]
        if draw(st.integers(0, 4)) == 0:
            rec["name"] = rec["name"] + " comment=%d" % i
        elif draw(st.integers(0, 9)) == 0:
            rec["name"] = "#" + rec["name"] + "/ccs"  # a read name may start with any printable character
        elif draw(st.integers(0, 9)) == 0:
            rec["name"] = draw(st.sampled_from(["se\u00f1al_%d", "M\u00fcller/%d/ccs", '"hg"/%d'])) % i  # text files are UTF-8
        lines.append(conv.stable_line(g["nodes"], rec) if stable else gen_gaf.record_line(rec))
    data_len = sum(len(l) + 1 for l in lines)
    comp = None
    if draw(st.integers(0, 2)) > 0:
        ncuts = draw(st.integers(0, 6))
        cuts = sorted(set(draw(st.lists(st.integers(1, max(1, data_len - 1)), min_size=ncuts, max_size=ncuts))))
        if len(lines) >= 2 and draw(st.integers(0, 2)) == 0:
            # blocks that end exactly where a record ends (files written with a flush per batch, concatenated files):
            # a record then starts at offset 0 of its block
            starts, pos = [], 0
            for l in lines:
                starts.append(pos)
                pos += len(l) + 1
            cuts = sorted(set(draw(st.lists(st.sampled_from(starts[1:]), min_size=1, max_size=4))))
        comp = {"cuts": cuts, "empty": draw(st.booleans()),
                "suffix": draw(st.sampled_from([".gz", ".gz", ".bgz", ""])),  # compression is detected by content, not by name
                # gzip header bytes the BGZF format leaves to the writer (htslib: 0, 0, 255)
                "header": draw(st.sampled_from([None, None, None, [1700000000, 2, 3], [0, 4, 0], [12345, 0, 255]]))}
    return g, {
        "gfa": gen_graph.gfa_text(g, with_seq=False, order_seed=draw(st.integers(0, 99))),
        "gaf": lines,
        "bgzf": comp,
        "stable": stable,
        "crlf": draw(st.integers(0, 7)) == 0,  # a text file written on Windows
        "_twice": sorted(twice),
    }


def materialize(d, case, name="in.gaf"):
    core.write_text(d + "/g.gfa", case["gfa"])
    eol = "\r\n" if case.get("crlf") else "\n"
    data = "".join(l + eol for l in case["gaf"]).encode()
    if case.get("bgzf"):
        path = d + "/" + name + case["bgzf"].get("suffix", ".gz")
        table = bgzf.write_bgzf(path, data, case["bgzf"]["cuts"], case["bgzf"]["empty"], header=case["bgzf"].get("header"))
    else:
        path = d + "/" + name
        with open(path, "wb") as f:
            f.write(data)
        table = None
    return path, table


def traversed(nodes, line):
    """Node ids a record traverses, from the definition."""
    f = line.split("\t")
    path = f[5]
    if (">" in path or "<" in path) and ":" not in path:
        return {n for _, n in models.parse_path(path)}
    return models.nodes_traversed_stable(nodes, f[4], path, int(f[7]), int(f[8]))


def twelve(line):
    f = line.split("\t")[:12]
    f[0] = f[0].split(" ")[0]
    return f


def alignment_columns(aln):
    return [aln.query_name, str(aln.query_length), str(aln.query_start), str(aln.query_end), aln.strand, aln.path,
            str(aln.path_length), str(aln.path_start), str(aln.path_end), str(aln.residue_matches),
            str(aln.alignment_block_length), str(aln.mapping_quality)]


def build_index(gaf_path, gfa_path, out, via="api", stale=False):
    from gaftools.cli import index

    if stale and out:
        # the output path already holds the (newer) index of some other GAF: indexing replaces it
        import pickle

        with open(out, "wb") as f:
            pickle.dump({("zz9", "chrZ", 0, 5): [0, 7], "ref_contig": ["chrZ"]}, f)

    if via != "api":
        # through the command line, with paths relative to the working directory (a bare file name for -o)
        d_ = os.path.dirname(out)
        if d_ and os.path.dirname(gaf_path) == d_ and os.path.dirname(gfa_path) == d_:
            cwd = os.getcwd()
            os.chdir(d_)
            try:
                return core.cli(["index", os.path.basename(gaf_path), os.path.basename(gfa_path), "-o", os.path.basename(out)])
            finally:
                os.chdir(cwd)
        return core.cli(["index", gaf_path, gfa_path, "-o", out])
    return core.call(index.run, gaf_path, gfa_path, out)


def file_classes(case, table):
    cl = ["stable" if case["stable"] else "unstable", "bgzf" if case.get("bgzf") else "plain"]
    if case.get("bgzf") and case["bgzf"].get("suffix", ".gz") != ".gz":
        cl.append("bgzf_file_not_named_gz")
    if case.get("bgzf") and case["bgzf"].get("header"):
        cl.append("bgzf_header_not_htslib_default")
    if case.get("crlf"):
        cl.append("crlf_line_endings")
    if "SN:Z:chr1_" in case["gfa"] or "\ts2" in case["gfa"] and "SO:i:1" in case["gfa"] and len(case["gfa"]) > 3000 and "sniffles" in case["gfa"]:
        cl.append("real_graph_window")
    if table is not None:
        cl.append("bgzf_blocks:%d" % min(len(table), 4))
        # a record starting beyond the first block / a line straddling a block boundary
        pos = 0
        starts = []
        for l in case["gaf"]:
            starts.append(pos)
            pos += len(l) + (2 if case.get("crlf") else 1)
        if len(table) >= 2 and any(s >= table[1][0] for s in starts):
            cl.append("record_starts_after_block1")
        bstarts = {u for u, _ in table[1:]}
        if any(b not in starts for b in bstarts):
            cl.append("line_straddles_block")
        if any(b in starts for b in bstarts):
            cl.append("record_starts_at_block_start")
    return cl


def run_view(d, gaf_path, case_gfa_path, out, nodes=(), regions=(), fmt=None, index=None, step_limit=None, via="api"):
    """view in-process; returns (call result, output lines or None).
    via: "api" = gaftools.cli.view.run(...); "cli" = `gaftools view ... -o out` through gaftools.__main__.main;
    "cli_stdout" = the same without -o, standard output captured."""
    import sys

    from gaftools.cli import view

    if via == "api":
        def go():
            return view.run(gaf_path, gfa=case_gfa_path if fmt else None, output=out, index=index,
                            nodes=list(nodes), regions=list(regions), format=fmt)
    else:
        argv = ["view", gaf_path]
        if fmt:
            argv += ["-g", case_gfa_path, "--format", fmt]
        if index:
            argv += ["-i", index]
        for n in nodes:
            argv += ["-n", n]
        for r in regions:
            argv += ["-r", r]
        if via == "cli":
            argv += ["-o", out]

        def go():
            r = core.cli(argv, capture_stdout=(via == "cli_stdout"))
            if r[0] == "ok" and via == "cli_stdout":
                core.write_text(out, r[1])
            if r[0] != "ok":
                raise _CliResult(r)
            return None

    if step_limit is None:
        res = _unwrap(core.call(go))
    else:
        count = [0]

        StepLimit = core.StepLimit

        def local(frame, event, arg):
            if event == "line":
                count[0] += 1
                if count[0] > step_limit:
                    raise StepLimit()
            return local

        def tracer(frame, event, arg):
            if frame.f_code.co_filename.endswith("cli/view.py"):
                return local
            return None

        old = sys.gettrace()
        sys.settrace(tracer)
        try:
            try:
                res = _unwrap(core.call(go))
            except StepLimit:
                res = ("steplimit", count[0])
        finally:
            sys.settrace(old)

    try:
        text = core.read_text(out)
    except OSError:
        text = None
    lines = None
    if text is not None and (text == "" or text.endswith("\n")):
        lines = text.split("\n")[:-1]
    return res, lines


class _CliResult(Exception):
    def __init__(self, res):
        Exception.__init__(self, str(res))
        self.res = res


_LAST = {}


def _unwrap(res):
    """core.call turned a _CliResult into ("exc", text); recover the original CLI result tuple."""
    if res[0] == "exc" and res[1].startswith("_CliResult: "):
        import ast

        return tuple(ast.literal_eval(res[1][len("_CliResult: "):].split(" at ")[0]))
    return res


def expected_plain(line):
    """What re-emitting a parsed record without conversion must print."""
    f = line.split("\t")
    return "\t".join(twelve(line) + f[12:])


_NOISE = "ABCDEFGHIJKLMNOPQRSTUVWXYZabcdefghijklmnopqrstuvwxyz0123456789+/"


def big_file_case(seed, nrec, stable, pad=120, block=20000, n_ref=12, contig="chr1", line_len=None, canonical=False,
                  noise=False):
    """A deterministic large GAF (many records, several BGZF blocks) over a small fixed bubble chain.
    Size thresholds (e.g. 'more than 1000 selected records') are invisible to small generated files."""
    import random

    rnd = random.Random(seed)
    g = {"nodes": {}, "links": []}
    pos = 0
    for i in range(1, n_ref + 1):
        ln = rnd.randint(3, 7)
        g["nodes"]["s%d" % i] = {"seq": "".join(rnd.choice("ACGT") for _ in range(ln)), "ln": ln, "sn": contig, "so": pos, "sr": 0}
        pos += ln
        if i > 1:
            g["links"].append(["s%d" % (i - 1), "+", "s%d" % i, "+"])
    for k, (a, b) in enumerate([(2, 4), (6, 8), (9, 11)]):
        h = "h%d" % (k + 1)
        g["nodes"][h] = {"seq": "ACGTAC", "ln": 6, "sn": "HG01#1#ctg%d" % k, "so": 100 * k, "sr": 1}
        g["links"].append(["s%d" % a, "+", h, "+"])
        g["links"].append([h, "+", "s%d" % b, "+"])
    lm = models.LinkModel(g["links"])
    lines = []
    ids = list(g["nodes"])
    for i in range(nrec):
        n = rnd.choice(ids)
        o = rnd.choice("++-")
        steps = [(">" if o == "+" else "<", n)]
        for _ in range(rnd.randint(0, 4)):
            nxt = lm.steps(n, o)
            if not nxt:
                break
            n, o = rnd.choice(nxt)
            steps.append((">" if o == "+" else "<", n))
        total = sum(g["nodes"][x]["ln"] for _, x in steps)
        ps = rnd.randint(0, total - 1)
        pe = rnd.randint(ps + 1, total)
        if canonical:  # the alignment touches its first and its last node
            first, last = g["nodes"][steps[0][1]]["ln"], g["nodes"][steps[-1][1]]["ln"]
            ps = rnd.randint(0, first - 1)
            pe = rnd.randint(max(ps + 1, total - last + 1), total)
        rec = {"name": "q%d" % i, "qlen": pe - ps + 4, "qs": 2, "qe": 2 + pe - ps, "strand": "+", "steps": steps, "plen": total,
               "ps": ps, "pe": pe, "matches": pe - ps, "block": pe - ps, "mapq": 60, "cg": "%d=" % (pe - ps),
               "tags": ["NM:i:0", "zq:Z:" + ("".join(rnd.choice(_NOISE) for _ in range(rnd.randint(0, pad))) if noise
                                             else "k" * rnd.randint(0, pad))], "cg_pos": 1}
        line = conv.stable_line(g["nodes"], rec) if stable else gen_gaf.record_line(rec)
        if line_len:
            # every line (with its newline) is exactly line_len bytes: records end on every multiple of line_len,
            # in particular on 64 KiB boundaries when line_len is a power of two
            f = line.split("\t")
            f[-1] = "zq:Z:"
            base = "\t".join(f)
            line = base + "k" * (line_len - 1 - len(base))
            assert len(line) == line_len - 1, (len(line), line_len)
        lines.append(line)
    size = sum(len(l) + 1 for l in lines)
    cuts = list(range(block, size, block))
    case = {"gfa": gen_graph.gfa_text(g, with_seq=False, order_seed=seed), "gaf": lines,
            "bgzf": {"cuts": cuts, "empty": False}, "stable": stable}
    return g, case
