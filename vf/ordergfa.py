"""Shared pieces of the order_gfa checks (C06, C07-B, C18)."""

import glob
import os

from vf import core, models


def run_order(d, gfa_text, chromosome_order, by_chrom, with_sequence=False, fname="g.gfa", sub="out",
              reuse_existing=False, via="api"):
    from gaftools.cli.order_gfa import run_order_gfa

    if fname == "g.gfa" and len(gfa_text) % 5 == 0:
        fname = "g{1}.gfa"  # file and directory names are not templates
    if sub in ("out", "o1") and len(gfa_text) % 3 == 0:
        sub = sub + "_{sample}"
    path = os.path.join(d, fname)
    if reuse_existing and os.path.exists(path):
        pass
    elif fname.endswith(".gz"):
        import gzip

        with gzip.open(path, "wt") as f:
            f.write(gfa_text)
    else:
        core.write_text(path, gfa_text)
    outdir = os.path.join(d, sub)
    if len(gfa_text) % 4 == 1 and not reuse_existing:
        outdir = os.path.join(d, "results", "run1", sub)  # an output directory two levels below anything that exists
    if via == "cli":
        opts = ["--outdir", outdir] + (["--by-chrom"] if by_chrom else []) + (["--with-sequence"] if with_sequence else [])
        order_opt = ["--chromosome_order", chromosome_order] if chromosome_order else []
        # the usage line puts the options first and GRAPH last; the order of the options is free
        argv = ["order_gfa"] + (opts + order_opt if len(gfa_text) % 2 else order_opt + opts) + [path]
        res = core.cli(argv)
    else:
        res = core.call(run_order_gfa, path, outdir, by_chrom, chromosome_order, with_sequence)
    files = {}
    if os.path.isdir(outdir):
        for p in sorted(glob.glob(outdir + "/*")):
            files[os.path.basename(p)] = core.read_text(p)
    return res, files


def parse_ordered_gfa(text):
    """-> (segments {id: (seq, [tags])}, s_order, links, kinds, bo_no {id: (BO, NO)} or raises Violation)"""
    segs, s_order, links, kinds = models.parse_gfa_text(text)
    bono = {}
    for n, (seq, tags) in segs.items():
        bo = [t for t in tags if t.startswith("BO:")]
        no = [t for t in tags if t.startswith("NO:")]
        core.check(len(bo) == 1 and len(no) == 1, "segment %s carries BO tags %s and NO tags %s", n, bo, no)
        core.check(bo[0].startswith("BO:i:") and no[0].startswith("NO:i:"), "BO/NO of %s are not integers: %s %s", n, bo, no)
        try:
            bono[n] = (int(bo[0][5:]), int(no[0][5:]))
        except ValueError:
            raise core.Violation("BO/NO of %s are not integers: %s %s" % (n, bo, no))
    return segs, s_order, links, kinds, bono


def strip_bono(tags):
    return [t for t in tags if not (t.startswith("BO:") or t.startswith("NO:"))]


def parse_csv(text):
    import csv
    import io

    # standard CSV: a field that contains a comma or a quote is quoted
    return [r for r in csv.reader(io.StringIO(text)) if r]


def outputs_by_chrom(files, by_chrom, chroms):
    """Map chromosome -> (gfa text, csv text) for by_chrom runs; for complete runs return {'complete': (gfa, csv)}."""
    out = {}
    if by_chrom:
        for c in chroms:
            g = [f for f in files if f.endswith("-%s.gfa" % c)]
            s = [f for f in files if f.endswith("-%s.csv" % c)]
            out[c] = (files[g[0]] if len(g) == 1 else None, files[s[0]] if len(s) == 1 else None, len(g), len(s))
    else:
        g = [f for f in files if f.endswith("-complete.gfa")]
        s = [f for f in files if f.endswith("-complete.csv")]
        out["complete"] = (files[g[0]] if len(g) == 1 else None, files[s[0]] if len(s) == 1 else None, len(g), len(s))
    return out
